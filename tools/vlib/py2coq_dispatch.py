"""Fail-closed translator for the data dispatcher and the forward pass of a model -> Gallina (tie T of C02), emitted into
coq/gen/Gen_dispatch.v.

Targets   reservoirpy/utils/graphflow.py :: class DataDispatcher: __init__, _check_inputs, get, __getitem__, load
          reservoirpy/model.py           :: forward(model, x)
          (+ find_parents_and_children, re-emitted by the UNMODIFIED translator tools/vlib/py2coq_graph.py, which __init__ calls)
Vocabulary: coq/base/PyColl.v + PyColl2.v (collections, the result monad py / py_let / py_for, node_name, py_getitem) + PyColl3.v
(src, xval, pyinput, pymap, datapoint, safe_defaultdict_copy, pdict).  Kinds and `Reject` are those of py2coq_graph.

How the object-oriented code is read (anything not listed is REJECTED):
  the object        `self` is a record `DataDispatcher` whose fields are the attributes assigned in __init__, in that order (field
                    `f<attr>`).  A method gets `self` as first argument; a method that stores into an attribute returns the new
                    object (`return self`) -- attributes may be assigned only in __init__ and in methods ending in `return self`.
  the model         `model.nodes / edges / input_nodes / output_nodes / trainable_nodes` are Section variables (lists of node ids /
                    edges); the properties of class Model are PINNED to be plain `return self._x` (trainable_nodes: opaque);
                    `model.data_dispatcher` is `DataDispatcher(model)`: pinned -- every assignment of `Model._dispatcher` is
                    `DataDispatcher(self)` and the property returns it (load() overwrites the two attributes a previous load wrote).
  node states       `n.state()` is `node_state w n` for the current world `w`; `_base.call(n, x)` (value discarded) is
                    `py_let w := base_call n x w`: world, node_state, base_call are Section variables, so the result holds for
                    every node type.  A function that calls _base.call returns (w, value).
  Y = None          `load` is translated for the call `load(x)` that forward makes: the parameter Y is its default None (checked),
                    `if Y is not None:` is dead code there (the block is not translated; it does not run).
  narrowing ifs     `if is_mapping(v)`, `if isinstance(v, _Node)`, `if v is [not] None`, `if m.get(k) is [not] None` become a
                    `match`; in the branch where it is known, v has the narrowed kind and `m[k]` is the value `m.get(k)` returned.
  union kinds       a variable bound to a list of arrays on one path and to one array on the other (`if len(x) == 1: x = x[0]`)
                    has kind xval after the if; each path injects with XList / XBare.
  statements        `v = e`, `self.a = e`, `self.a, _ = f(..)`, `v = []`, `v.append(e)`, `self.a[k] += [e]`, `for v in l:`, `if`,
                    `raise KeyError/...(...)` (also inside a loop), `return e` (not inside a loop), `self.m(..)` / `_base.call(..)` as
                    statements, docstrings.  Every function is a computation in `py`.
  expressions       names, `self.a`, `n.name`, `[e]`, `d.get(k, ())` on the parents dict, `d.get(k, None)` on a plain dict,
                    `m.get(k)` on a mapping, `len(l)`, `l[0]` (py_getitem: IndexError), `a == b` on ints, `p.state()`,
                    `DataPoint(x=, y=)`, `e.x` / `e.y`, `o[k]` on the dispatcher (= `o.__getitem__(k)`), `self.m(..)`,
                    `[e for v in l]`, `dict()`, `safe_defaultdict_copy(d)` (text PINNED), `find_parents_and_children(e)`.
"""
import ast
import hashlib
import os

from vlib import py2coq_graph as g
from vlib.py2coq_graph import Reject, NODE, EDGE, NAT, BOOL, L, OPT, T, where

VERSION = "py2coq_dispatch 1"
SRC_GRAPH = "reservoirpy/utils/graphflow.py"
SRC_MODEL = "reservoirpy/model.py"
SRC_UTILS = "reservoirpy/utils/__init__.py"
CLASS = "DataDispatcher"

DATUM, SRC, XVAL, INPUT, MAP = ("datum",), ("src",), ("xval",), ("input",), ("map",)
DDN, DDS, TEACH, DP, UNIT, OBJ, MODEL, WORLD, STATIC_NONE = g.DD, ("dds",), ("teach",), ("dp",), ("unit",), ("obj",), ("model",), ("world",), ("static_none",)

METHODS = [
    ("__init__", [("model", MODEL)]),
    ("_check_inputs", [("input_mapping", INPUT)]),
    ("get", [("item", NODE)]),
    ("__getitem__", [("item", NODE)]),
    ("load", [("X", OPT(INPUT)), ("Y", STATIC_NONE)]),
]
FORWARD = ("forward", [("model", MODEL), ("x", INPUT)])
MODEL_ATTRS = {"nodes": ("_nodes", L(NODE)), "edges": ("_edges", L(EDGE)), "input_nodes": ("_inputs", L(NODE)),
               "output_nodes": ("_outputs", L(NODE)), "trainable_nodes": (None, L(NODE))}
EXCS = {"RuntimeError", "KeyError", "ValueError", "IndexError", "TypeError"}
PIN_SDC = ("def safe_defaultdict_copy(d):\n    new_d = defaultdict(list)\n    for key, item in d.items():\n"
           "        if isinstance(item, Iterable):\n            new_d[key] = list(item)\n        else:\n"
           "            new_d[key] += [item]\n    return new_d")
PIN_DP = "DataPoint = namedtuple('DataPoint', 'x, y')"
RESERVED = g.RESERVED | set("""self w tt datum world node_state base_call model_nodes model_edges model_input_nodes model_output_nodes
model_trainable_nodes src xval pymap pyinput datapoint SrcNode SrcData XBare XList InArr InMap map_get dp_x dp_y safe_defaultdict_copy
pdict pd_lookup py_let py_getitem node_name unit mkDataDispatcher DataDispatcher find_parents_and_children""".split())


def coqtype(k):
    if k in (NODE, EDGE, NAT, BOOL):
        return g.coqtype(k)
    simple = {DATUM: "datum", SRC: "src datum", XVAL: "xval datum", INPUT: "pyinput datum", MAP: "pymap datum",
              DDN: "ddict node node", DDS: "ddict node (src datum)", TEACH: "pdict node datum", DP: "datapoint datum",
              UNIT: "unit", OBJ: CLASS, WORLD: "world"}
    if k in simple:
        return simple[k]
    if k[0] == "list" and k[1] is not None:
        return "list (%s)" % coqtype(k[1])
    if k[0] == "opt":
        return "option (%s)" % coqtype(k[1])
    if k[0] == "tuple":
        return "(" + " * ".join(coqtype(x) for x in k[1:]) + ")"
    raise Reject("no Coq type for kind %r" % (k,))


def is_self_attr(e):
    return isinstance(e, ast.Attribute) and isinstance(e.value, ast.Name) and e.value.id == "self"


def is_none(e):
    return isinstance(e, ast.Constant) and e.value is None


def ends(body):
    return bool(body) and isinstance(body[-1], (ast.Return, ast.Raise))


class Fn:
    """translation state of one function / method"""

    def __init__(self, tr, name, params, is_method):
        self.tr, self.name, self.params, self.is_method = tr, name, params, is_method
        self.ret = None
        self.known = {}                    # unparse("m[k]") -> (term, kind) inside `if m.get(k) is not None:`

    # ------------------------------------------------------------------ helpers
    def fresh(self, prefix):
        self.tr.tmp += 1
        return "%s__%d" % (prefix, self.tr.tmp)

    def name_ok(self, s, n):
        if s in RESERVED or s.startswith("f_") or s.startswith("it__") or s.startswith("ix__") or s.startswith("r__") \
                or s.startswith(CLASS) or s in self.tr.done:
            raise Reject("%s: variable name %r clashes with the generated vocabulary" % (where(n), s))
        return s

    def fvar(self, attr):
        return "f" + attr

    def self_term(self, n=None):
        if not self.tr.fields:
            raise Reject("%s: the object is used before __init__ is translated" % (where(n) if n else self.name))
        return "(mk%s %s)" % (CLASS, " ".join(self.fvar(a) for a, _ in self.tr.fields))

    @staticmethod
    def pat(vs):
        vs = list(vs)
        return "tt" if not vs else vs[0] if len(vs) == 1 else "(" + ", ".join(vs) + ")"

    @staticmethod
    def lam(vs):
        vs = list(vs)
        return "_" if not vs else vs[0] if len(vs) == 1 else "'(" + ", ".join(vs) + ")"

    @staticmethod
    def lets(pre):
        return "".join(("py_let %s := %s in\n" if mon else "let %s := %s in\n") % (p, t) for p, t, mon in pre)

    def to_xval(self, t, k, n):
        if k == XVAL:
            return t
        if k == DATUM:
            return "(XBare %s)" % t
        if k == L(DATUM):
            return "(XList %s)" % t
        raise Reject("%s: a value of kind %r is used where an array or a list of arrays is expected" % (where(n), k))

    # ------------------------------------------------------------------ expressions -> (pre, term, kind)
    def expr(self, e, env):
        key = ast.unparse(e)
        if key in self.known and isinstance(e, ast.Subscript):
            t, k = self.known[key]
            return [], t, k
        if isinstance(e, ast.Name):
            if e.id not in env:
                raise Reject("%s: unknown name %r" % (where(e), e.id))
            if env[e.id] in (MODEL, STATIC_NONE):
                raise Reject("%s: %r used as a value" % (where(e), e.id))
            return [], e.id, env[e.id]
        if isinstance(e, ast.Constant):
            if isinstance(e.value, bool) or not isinstance(e.value, int) or e.value < 0:
                raise Reject("%s: constant %r" % (where(e), e.value))
            return [], "%d" % e.value, NAT
        if isinstance(e, ast.List):
            if not e.elts:
                return [], "[]", L(None)
            parts = [self.expr(x, env) for x in e.elts]
            k = parts[0][2]
            if any(p[2] != k for p in parts) or k[0] in ("list", "dds", "teach", "obj") or k == DDN:
                raise Reject("%s: list display of mixed / mutable elements" % where(e))
            return [b for p in parts for b in p[0]], "[" + "; ".join(p[1] for p in parts) + "]", L(k)
        if isinstance(e, ast.Attribute) and isinstance(e.ctx, ast.Load):
            return self.attribute(e, env)
        if isinstance(e, ast.Subscript) and isinstance(e.ctx, ast.Load):
            pv, v, kv = self.expr(e.value, env)
            if kv == OBJ:
                return self.method_call(e, "__getitem__", pv, v, [e.slice], env)
            if kv[0] == "list" and kv[1] is not None and isinstance(e.slice, ast.Constant) and e.slice.value == 0 \
                    and not isinstance(e.slice.value, bool):
                x = self.fresh("ix")
                return pv + [(x, "(py_getitem %s 0%%Z)" % v, True)], x, kv[1]
            raise Reject("%s: subscript %s of a value of kind %r" % (where(e), ast.unparse(e), kv))
        if isinstance(e, ast.Compare):
            return self.compare(e, env)
        if isinstance(e, ast.ListComp):
            if len(e.generators) != 1 or e.generators[0].ifs or e.generators[0].is_async or not isinstance(e.generators[0].target, ast.Name):
                raise Reject("%s: comprehension shape" % where(e))
            gen = e.generators[0]
            pi, it, ki = self.expr(gen.iter, env)
            if ki[0] != "list" or ki[1] not in (NODE, DATUM, SRC):
                raise Reject("%s: comprehension over a value of kind %r" % (where(e), ki))
            env2 = dict(env)
            v = self.name_ok(gen.target.id, gen.target)
            if v in env:
                raise Reject("%s: comprehension variable %r shadows a name" % (where(e), v))
            env2[v] = ki[1]
            pe, el, ke = self.expr(e.elt, env2)
            if pe or ke not in (NODE, DATUM, SRC):
                raise Reject("%s: comprehension element" % where(e))
            return pi, "(map (fun %s => %s) %s)" % (v, el, it), L(ke)
        if isinstance(e, ast.Call):
            return self.call(e, env)
        raise Reject("%s: expression %s" % (where(e), type(e).__name__))

    def attribute(self, e, env):
        if is_self_attr(e):
            if not self.is_method:
                raise Reject("%s: self outside a method" % where(e))
            fk = dict(self.tr.fields).get(e.attr)
            if fk is None or self.fvar(e.attr) not in env:
                raise Reject("%s: attribute self.%s is not (yet) assigned in __init__" % (where(e), e.attr))
            return [], self.fvar(e.attr), env[self.fvar(e.attr)]
        if isinstance(e.value, ast.Name) and env.get(e.value.id) == MODEL:
            if e.attr == "data_dispatcher":
                self.tr.need_pins.add("dispatcher")
                if "__init__" not in self.tr.done:
                    raise Reject("%s: model.data_dispatcher before __init__ is translated" % where(e))
                x = self.fresh("r")
                return [(x, "%s___init__" % CLASS, True)], x, OBJ
            if e.attr in MODEL_ATTRS:
                self.tr.need_pins.add(e.attr)
                return [], "model_" + e.attr, MODEL_ATTRS[e.attr][1]
            raise Reject("%s: model attribute %s" % (where(e), e.attr))
        pv, v, kv = self.expr(e.value, env)
        if kv == NODE and e.attr == "name":
            return pv, "(node_name %s)" % v, NODE
        if kv == DP and e.attr in ("x", "y"):
            self.tr.need_pins.add("DataPoint")
            return pv, "(dp_%s %s)" % (e.attr, v), XVAL if e.attr == "x" else OPT(DATUM)
        raise Reject("%s: attribute %s of a value of kind %r" % (where(e), e.attr, kv))

    def compare(self, e, env):
        if len(e.ops) != 1:
            raise Reject("%s: chained comparison" % where(e))
        op, rhs = e.ops[0], e.comparators[0]
        if isinstance(op, (ast.Is, ast.IsNot)):
            if not is_none(rhs):
                raise Reject("%s: `is` with something else than None" % where(e))
            pa, a, ka = self.expr(e.left, env)
            if ka[0] != "opt":
                raise Reject("%s: `is None` on a value of kind %r (never None)" % (where(e), ka))
            t = "(is_none %s)" % a
            return pa, t if isinstance(op, ast.Is) else "(negb %s)" % t, BOOL
        pa, a, ka = self.expr(e.left, env)
        pb, b, kb = self.expr(rhs, env)
        if ka == NAT and kb == NAT:
            t = {ast.Lt: "(Nat.ltb %s %s)" % (a, b), ast.LtE: "(Nat.leb %s %s)" % (a, b), ast.Gt: "(Nat.ltb %s %s)" % (b, a),
                 ast.GtE: "(Nat.leb %s %s)" % (b, a), ast.Eq: "(Nat.eqb %s %s)" % (a, b),
                 ast.NotEq: "(negb (Nat.eqb %s %s))" % (a, b)}.get(type(op))
            if t:
                return pa + pb, t, BOOL
        raise Reject("%s: comparison %s on kinds %r, %r" % (where(e), type(op).__name__, ka, kb))

    def call(self, e, env):
        f = e.func
        if isinstance(f, ast.Name):
            if f.id == "DataPoint":
                self.tr.need_pins.add("DataPoint")
                kw = {k.arg: k.value for k in e.keywords}
                if e.args or set(kw) != {"x", "y"} or len(e.keywords) != 2:
                    raise Reject("%s: DataPoint(x=, y=) expected" % where(e))
                px, x, kx = self.expr(kw["x"], env)
                py_, y, ky = self.expr(kw["y"], env)
                if ky != OPT(DATUM):
                    raise Reject("%s: DataPoint y of kind %r" % (where(e), ky))
                return px + py_, "(%s, %s)" % (self.to_xval(x, kx, e), y), DP
            if e.keywords:
                raise Reject("%s: keyword arguments" % where(e))
            if f.id == "dict" and not e.args:
                return [], "([] : pdict node datum)", TEACH
            if f.id == "len" and len(e.args) == 1:
                pa, a, ka = self.expr(e.args[0], env)
                if ka[0] != "list":
                    raise Reject("%s: len of kind %r" % (where(e), ka))
                return pa, "(length %s)" % a, NAT
            if f.id == "safe_defaultdict_copy" and len(e.args) == 1:
                self.tr.need_pins.add("safe_defaultdict_copy")
                pa, a, ka = self.expr(e.args[0], env)
                if ka != DDN:
                    raise Reject("%s: safe_defaultdict_copy of kind %r" % (where(e), ka))
                return pa, "(safe_defaultdict_copy (D := datum) %s)" % a, DDS
            if f.id == "find_parents_and_children" and len(e.args) == 1:
                pa, a, ka = self.expr(e.args[0], env)
                if ka != L(EDGE):
                    raise Reject("%s: find_parents_and_children of kind %r" % (where(e), ka))
                self.tr.uses_fpc = True
                return pa, "(find_parents_and_children %s)" % a, T(DDN, DDN)
            raise Reject("%s: call of unknown function %r" % (where(e), f.id))
        if isinstance(f, ast.Attribute):
            if e.keywords:
                raise Reject("%s: keyword arguments" % where(e))
            if is_self_attr(f) and f.attr in self.tr.done:
                if not self.is_method:
                    raise Reject("%s: self outside a method" % where(e))
                return self.method_call(e, f.attr, [], self.self_term(e), e.args, env)
            pv, v, kv = self.expr(f.value, env)
            if kv == OBJ and f.attr in self.tr.done:
                return self.method_call(e, f.attr, pv, v, e.args, env)
            if kv == NODE and f.attr == "state" and not e.args:
                if "w" not in env:
                    raise Reject("%s: .state() in a function that was not given the world" % where(e))
                return pv, "(node_state w %s)" % v, DATUM
            if f.attr == "get" and len(e.args) in (1, 2):
                pk, k, kk = self.expr(e.args[0], env)
                if kk != NODE:
                    raise Reject("%s: .get key of kind %r" % (where(e), kk))
                dflt = e.args[1] if len(e.args) == 2 else None
                if kv == DDS and dflt is not None and isinstance(dflt, (ast.Tuple, ast.List)) and not dflt.elts:
                    return pv + pk, "(dd_get %s %s [])" % (v, k), L(SRC)
                if kv == TEACH and (dflt is None or is_none(dflt)):
                    return pv + pk, "(pd_lookup %s %s)" % (v, k), OPT(DATUM)
                if kv == MAP and (dflt is None or is_none(dflt)):
                    return pv + pk, "(map_get %s %s)" % (v, k), OPT(DATUM)
                raise Reject("%s: .get on kind %r with default %s" % (where(e), kv, ast.unparse(dflt) if dflt is not None else "-"))
        raise Reject("%s: call %s" % (where(e), ast.unparse(e.func)))

    def method_call(self, e, meth, pv, objterm, args, env):
        sig = self.tr.done.get(meth)
        if sig is None:
            raise Reject("%s: method %s is not translated (yet)" % (where(e), meth))
        if sig["writes_w"]:
            raise Reject("%s: call of %s, which calls nodes" % (where(e), meth))
        dyn = [(p, k) for p, k in sig["params"] if k != STATIC_NONE]
        static = [(p, k) for p, k in sig["params"] if k == STATIC_NONE]
        if len(args) != len(dyn) or (static and sig["params"][len(dyn):] != static):
            raise Reject("%s: %s() called with %d arguments (translated for %d, the others at their default None)" % (
                where(e), meth, len(args), len(dyn)))
        pre, ts = list(pv), []
        for a, (pn, pk) in zip(args, dyn):
            pa, t, ka = self.expr(a, env)
            pre += pa
            if pk[0] == "opt" and ka == pk[1]:
                t = "(Some %s)" % t
            elif ka != pk:
                raise Reject("%s: argument %s of %s has kind %r, expected %r" % (where(e), pn, meth, ka, pk))
            ts.append(t)
        if sig["reads_w"]:
            if "w" not in env:
                raise Reject("%s: %s reads node states; the caller has no world" % (where(e), meth))
            ts = ["w"] + ts
        x = self.fresh("r")
        return pre + [(x, "%s_%s %s" % (CLASS, meth, " ".join([objterm] + ts)), True)], x, sig["ret"]

    # ------------------------------------------------------------------ statements
    def assigned(self, stmts, env):
        """Coq variables (re)bound by a block (names, f<attr> for self attributes, w for _base.call), in first-occurrence order"""
        out = []

        def add(n):
            if n in env and n not in out:
                out.append(n)

        def base(v):
            while isinstance(v, ast.Subscript):
                v = v.value
            if isinstance(v, ast.Name):
                add(v.id)
            elif is_self_attr(v):
                add(self.fvar(v.attr))
            else:
                raise Reject("%s: store into %s" % (where(v), ast.unparse(v)))

        def target(t):
            if isinstance(t, ast.Name):
                if t.id != "_":
                    add(t.id)
            elif isinstance(t, ast.Tuple):
                for x in t.elts:
                    target(x)
            else:
                base(t)

        for s in stmts:
            for n in ast.walk(s):
                if isinstance(n, ast.Assign):
                    for t in n.targets:
                        target(t)
                elif isinstance(n, (ast.AugAssign, ast.AnnAssign)):
                    target(n.target)
                elif isinstance(n, ast.Call) and isinstance(n.func, ast.Attribute):
                    if n.func.attr in g_MUTATORS:
                        base(n.func.value)
                    if ast.unparse(n.func) == "_base.call":
                        add("w")
                elif isinstance(n, (ast.NamedExpr, ast.Delete, ast.Global, ast.Nonlocal, ast.With, ast.Try, ast.Import, ast.ImportFrom,
                                    ast.FunctionDef, ast.ClassDef, ast.Lambda, ast.Yield, ast.YieldFrom, ast.Await, ast.Break,
                                    ast.Continue, ast.While, ast.AsyncFor, ast.AsyncWith)):
                    raise Reject("%s: statement %s" % (where(n), type(n).__name__))
        return out

    def finish(self, value, kind, n):
        """the term a `return` (or the end of the function) produces"""
        if getattr(self, "ret", None) not in (None, kind):
            raise Reject("%s: return kinds differ: %r / %r" % (where(n) if n else self.name, self.ret, kind))
        self.ret = kind
        return "Val (w, %s)" % value if self.writes_w else "Val %s" % value

    def block(self, stmts, env, tail, in_loop):
        """stmts -> Coq term of type py _.  tail(env) -> the term ending the block when no return / raise ended it."""
        if not stmts:
            return tail(env)
        s, rest = stmts[0], stmts[1:]
        env = dict(env)
        k = lambda: self.block(rest, env, tail, in_loop)

        if isinstance(s, ast.Expr) and isinstance(s.value, ast.Constant) and isinstance(s.value.value, str):
            return k()
        if isinstance(s, ast.Pass):
            return k()

        if isinstance(s, ast.Return):
            if rest:
                raise Reject("%s: code after return" % where(s))
            if in_loop:
                raise Reject("%s: return inside a loop" % where(s))
            if s.value is None:
                raise Reject("%s: bare return" % where(s))
            if isinstance(s.value, ast.Name) and s.value.id == "self":
                if not self.is_method or self.name == "__init__":
                    raise Reject("%s: return self" % where(s))
                self.returns_self = True
                return self.finish(self.self_term(s), OBJ, s)
            if self.mutates:
                raise Reject("%s: a method that assigns attributes must end in `return self`" % where(s))
            pre, t, kv = self.expr(s.value, env)
            if kv[0] == "list" and kv[1] is None:
                raise Reject("%s: returns a list of unknown element kind" % where(s))
            if pre and pre[-1][2] and pre[-1][0] == t and not self.writes_w:
                self.finish(t, kv, s)
                return self.lets(pre[:-1]) + pre[-1][1]                      # tail call
            return self.lets(pre) + self.finish(t, kv, s)

        if isinstance(s, ast.Raise):
            if rest:
                raise Reject("%s: code after raise" % where(s))
            ex = s.exc
            nm = ex.func.id if isinstance(ex, ast.Call) and isinstance(ex.func, ast.Name) else ex.id if isinstance(ex, ast.Name) else None
            if nm not in EXCS or s.cause is not None:
                raise Reject("%s: raise of %r" % (where(s), nm))
            return "Exc %s" % nm

        if isinstance(s, ast.Assign):
            if len(s.targets) != 1:
                raise Reject("%s: chained assignment" % where(s))
            tg = s.targets[0]
            pre, t, kv = self.expr(s.value, env)
            if isinstance(tg, ast.Name):
                if kv in (DDN, DDS, TEACH, OBJ) and not isinstance(s.value, ast.Call):
                    raise Reject("%s: %r becomes a second name of a mutable object" % (where(s), tg.id))
                if kv[0] == "list" and not isinstance(s.value, (ast.List, ast.Call, ast.ListComp, ast.Subscript)):
                    raise Reject("%s: %r becomes a second name of a list" % (where(s), tg.id))
                if tg.id in env and env[tg.id] in (MODEL, STATIC_NONE, WORLD):
                    raise Reject("%s: %r is rebound" % (where(s), tg.id))
                env[self.name_ok(tg.id, tg)] = kv
                return self.lets(pre) + "let %s := %s in\n%s" % (tg.id, t, k())
            if is_self_attr(tg):
                return self.lets(pre) + self.store_attr(tg, t, kv, env, s) + k()
            if isinstance(tg, ast.Tuple):
                ks = list(kv[1:]) if kv[0] == "tuple" else None
                if ks is None or len(ks) != len(tg.elts) or not isinstance(s.value, ast.Call):
                    raise Reject("%s: cannot unpack kind %r into %d targets" % (where(s), kv, len(tg.elts)))
                ps, after = [], ""
                for el, kk in zip(tg.elts, ks):
                    if isinstance(el, ast.Name) and el.id == "_":
                        ps.append("_")
                    elif isinstance(el, ast.Name):
                        env[self.name_ok(el.id, el)] = kk
                        ps.append(el.id)
                    elif is_self_attr(el):
                        x = self.fresh("r")
                        ps.append(x)
                        after += self.store_attr(el, x, kk, env, s)
                    else:
                        raise Reject("%s: unpacking target %s" % (where(s), ast.unparse(el)))
                return self.lets(pre) + "let '(%s) := %s in\n%s%s" % (", ".join(ps), t, after, k())
            raise Reject("%s: assignment target %s" % (where(s), ast.unparse(tg)))

        if isinstance(s, ast.AugAssign):
            tg = s.target
            if isinstance(s.op, ast.Add) and isinstance(tg, ast.Subscript) and is_self_attr(tg.value):
                fv = self.fvar(tg.value.attr)
                if env.get(fv) != DDS or self.name == "__init__":
                    raise Reject("%s: `self.a[k] += l` is understood on the copied parents dictionary" % where(s))
                self.check_may_store(s)
                pk, key, kk = self.expr(tg.slice, env)
                if not (isinstance(s.value, ast.List) and len(s.value.elts) == 1):
                    raise Reject("%s: `self.a[k] += [e]` expected" % where(s))
                pv, val, kvv = self.expr(s.value.elts[0], env)
                if kk != NODE or kvv not in (DATUM, NODE, SRC):
                    raise Reject("%s: `self.a[k] += [e]`: key %r, element %r" % (where(s), kk, kvv))
                el = val if kvv == SRC else "(%s %s)" % ("SrcData" if kvv == DATUM else "SrcNode", val)
                return self.lets(pk + pv) + "let %s := dd_iadd %s %s [%s] in\n%s" % (fv, fv, key, el, k())
            raise Reject("%s: augmented assignment %s" % (where(s), ast.unparse(s)[:60]))

        if isinstance(s, ast.Expr) and isinstance(s.value, ast.Call):
            c = s.value
            if ast.unparse(c.func) == "_base.call":
                if c.keywords or len(c.args) != 2 or not self.writes_w:
                    raise Reject("%s: _base.call(node, x) expected" % where(s))
                pn, nt, kn = self.expr(c.args[0], env)
                px, xt, kx = self.expr(c.args[1], env)
                if kn != NODE:
                    raise Reject("%s: _base.call on kind %r" % (where(s), kn))
                return self.lets(pn + px) + "py_let w := base_call %s %s w in\n%s" % (nt, self.to_xval(xt, kx, s), k())
            if isinstance(c.func, ast.Attribute) and c.func.attr == "append" and isinstance(c.func.value, ast.Name) \
                    and not c.keywords and len(c.args) == 1:
                v = c.func.value.id
                kv = env.get(v)
                if kv is None or kv[0] != "list":
                    raise Reject("%s: .append on %r of kind %r" % (where(s), v, kv))
                if v not in self.owned:
                    raise Reject("%s: .append on %r, which may be a second name of a list held elsewhere (aliasing is not tracked)" % (where(s), v))
                pa, a, ka = self.expr(c.args[0], env)
                if kv[1] is None:
                    kv = L(ka)
                    env[v] = kv
                if kv[1] != ka or ka not in (NODE, DATUM, SRC):
                    raise Reject("%s: .append(%s) of kind %r on a list of %r" % (where(s), a, ka, kv[1]))
                return self.lets(pa) + "let %s := list_append %s %s in\n%s" % (v, v, a, k())
            if isinstance(c.func, ast.Attribute) and is_self_attr(c.func) and c.func.attr in self.tr.done:
                pre, t, kv = self.expr(c, env)
                if kv != UNIT:
                    raise Reject("%s: the value of %s is discarded" % (where(s), ast.unparse(c.func)))
                return self.lets(pre[:-1]) + "py_let _ := %s in\n%s" % (pre[-1][1], k())
            raise Reject("%s: statement %s" % (where(s), ast.unparse(s)[:60]))

        if isinstance(s, ast.If):
            return self.if_stmt(s, rest, env, tail, in_loop)
        if isinstance(s, ast.For):
            return self.for_stmt(s, rest, env, tail, in_loop)
        raise Reject("%s: statement %s" % (where(s), type(s).__name__))

    def check_may_store(self, s):
        if not self.is_method:
            raise Reject("%s: attribute store outside a method" % where(s))
        self.stores = True

    def store_attr(self, tg, term, kind, env, s):
        self.check_may_store(s)
        fv = self.fvar(tg.attr)
        if self.name == "__init__":
            if tg.attr in dict(self.tr.fields):
                raise Reject("%s: attribute %s assigned twice in __init__" % (where(s), tg.attr))
            if kind[0] == "list" and kind[1] is None:
                raise Reject("%s: attribute of unknown element kind" % where(s))
            self.tr.fields.append((tg.attr, kind))
        else:
            if kind in (DDN, DDS, TEACH, OBJ) or kind[0] == "list":
                if not isinstance(s, ast.Assign) or not isinstance(s.value, (ast.Call, ast.List, ast.ListComp, ast.Dict)):
                    raise Reject("%s: self.%s becomes a second name of a mutable object (aliasing is not tracked)" % (where(s), tg.attr))
            if dict(self.tr.fields).get(tg.attr) != kind:
                raise Reject("%s: self.%s is assigned a value of kind %r (declared %r by __init__)" % (
                    where(s), tg.attr, kind, dict(self.tr.fields).get(tg.attr)))
        env[fv] = kind
        return "let %s := %s in\n" % (fv, term)

    # ---- if
    def branches(self, s, env):
        """-> (header, [(pattern, env_i, known_i)] for body / orelse).  header + ' with | p1 => .. | p2 => .. end' or an if"""
        t = s.test
        neg = False
        if isinstance(t, ast.UnaryOp) and isinstance(t.op, ast.Not):
            raise Reject("%s: `not` in a condition" % where(s))
        # is_mapping(v) / isinstance(v, _Node)
        if isinstance(t, ast.Call) and isinstance(t.func, ast.Name) and not t.keywords:
            if t.func.id == "is_mapping" and len(t.args) == 1 and isinstance(t.args[0], ast.Name) and env.get(t.args[0].id) == INPUT:
                v = t.args[0].id
                return [], ("match", v, [("InMap %s" % v, {v: MAP}, {}), ("InArr %s" % v, {v: DATUM}, {})], [v])
            if t.func.id == "isinstance" and len(t.args) == 2 and isinstance(t.args[0], ast.Name) and env.get(t.args[0].id) == SRC \
                    and isinstance(t.args[1], ast.Name) and t.args[1].id == "_Node":
                v = t.args[0].id
                return [], ("match", v, [("SrcNode %s" % v, {v: NODE}, {}), ("SrcData %s" % v, {v: DATUM}, {})], [v])
        if isinstance(t, ast.Compare) and len(t.ops) == 1 and isinstance(t.ops[0], (ast.Is, ast.IsNot)) and is_none(t.comparators[0]):
            neg = isinstance(t.ops[0], ast.Is)           # `is None`: the body is the None branch
            lhs = t.left
            if isinstance(lhs, ast.Name) and env.get(lhs.id) == STATIC_NONE:
                return [], ("static", neg, None, [])
            if isinstance(lhs, ast.Name) and env.get(lhs.id, ("?",))[0] == "opt":
                v = lhs.id
                brs = [("Some %s" % v, {v: env[v][1]}, {}), ("None", {}, {})]
                return [], ("match", v, brs[::-1] if neg else brs, [v])
            if isinstance(lhs, ast.Call) and isinstance(lhs.func, ast.Attribute) and lhs.func.attr == "get" and len(lhs.args) == 1 \
                    and not lhs.keywords:
                pre, scrut, ks = self.expr(lhs, env)
                pm, m, km = self.expr(lhs.func.value, env)
                if km == MAP and ks == OPT(DATUM):
                    x = self.fresh("it")
                    key = "%s[%s]" % (ast.unparse(lhs.func.value), ast.unparse(lhs.args[0]))
                    guard = [n.id for n in ast.walk(lhs) if isinstance(n, ast.Name)]
                    brs = [("Some %s" % x, {}, {key: (x, DATUM)}), ("None", {}, {})]
                    return pre, ("match", scrut, brs[::-1] if neg else brs, guard)
        pre, c, kc = self.expr(t, env)
        if kc != BOOL:
            raise Reject("%s: condition of kind %r" % (where(s), kc))
        return pre, ("if", c, [("", {}, {}), ("", {}, {})], [])

    def if_stmt(self, s, rest, env, tail, in_loop):
        pre, (form, scrut, brs, guard) = self.branches(s, env)
        if form == "static":
            # `if Y is not None:` with Y statically None: the body is dead code, the else branch (if any) runs
            live = s.body if scrut else s.orelse
            return self.block(list(live) + list(rest), env, tail, in_loop)
        bodies = [s.body, s.orelse]
        for b in bodies:
            for v in guard:
                if v in self.assigned_names(b):
                    raise Reject("%s: %r, which the condition narrows, is rebound in a branch" % (where(s), v))
        e_body, e_else = ends(s.body), ends(s.orelse)

        def compile_branch(i, stmts, tl):
            pat, envmod, known = brs[i]
            env2 = dict(env)
            env2.update(envmod)
            saved = dict(self.known)
            self.known.update(known)
            try:
                return self.block(stmts, env2, tl, in_loop)
            finally:
                self.known = saved

        def glue(a, b):
            if form == "if":
                return "(if %s then\n%s\nelse\n%s)" % (scrut, a, b)
            return "(match %s with\n| %s =>\n%s\n| %s =>\n%s\nend)" % (scrut, brs[0][0], a, brs[1][0], b)

        if e_body or e_else:
            if e_body and e_else:
                if rest:
                    raise Reject("%s: code after an if whose branches both leave the function" % where(s))
                return self.lets(pre) + glue(compile_branch(0, s.body, None), compile_branch(1, s.orelse, None))
            # one branch leaves the function (raise / return); the other continues with the rest of the block.
            # Narrowing must not leak into the rest: the continuing branch is compiled as its body followed by the rest only when
            # it narrows nothing; otherwise the rest would be typed under the narrowing, which is what Python does too
            # (the narrowed fact still holds there), so this is sound.
            if e_body:
                a = compile_branch(0, s.body, None)
                b = compile_branch(1, list(s.orelse) + list(rest), tail)
            else:
                a = compile_branch(0, list(s.body) + list(rest), tail)
                b = compile_branch(1, s.orelse, None)
            return self.lets(pre) + glue(a, b)

        vs = self.assigned(s.body + s.orelse, env)
        finals = {}                                 # (vs may be empty: the only effect of the if is a possible raise)

        def mk_tail(i):
            def tl(envb):
                finals[i] = dict(envb)
                return "@@TAIL%d@@" % i
            return tl

        outs = [compile_branch(i, bodies[i], mk_tail(i)) for i in (0, 1)]
        merged = {}
        for v in vs:
            ka, kb = finals[0].get(v), finals[1].get(v)
            if ka == kb:
                merged[v] = ka
            elif {ka, kb} == {DATUM, L(DATUM)} or (XVAL in (ka, kb) and {ka, kb} <= {XVAL, DATUM, L(DATUM)}):
                merged[v] = XVAL
            elif ka and kb and ka[0] == "list" and kb[0] == "list" and None in (ka[1], kb[1]):
                merged[v] = ka if ka[1] is not None else kb
            else:
                raise Reject("%s: %r has kind %r on one path and %r on the other" % (where(s), v, ka, kb))
        for i in (0, 1):
            vals = [self.to_xval(v, finals[i][v], s) if merged[v] == XVAL and finals[i][v] != XVAL else v for v in vs]
            outs[i] = outs[i].replace("@@TAIL%d@@" % i, "Val %s" % self.pat(vals))
        env = dict(env)
        env.update(merged)
        return self.lets(pre) + "py_let %s := %s in\n%s" % (self.lam(vs), glue(outs[0], outs[1]), self.block(rest, env, tail, in_loop))

    def assigned_names(self, stmts):
        out = set()
        for st in stmts:
            for n in ast.walk(st):
                if isinstance(n, ast.Name) and isinstance(n.ctx, (ast.Store, ast.Del)):
                    out.add(n.id)
                if isinstance(n, ast.Call) and isinstance(n.func, ast.Attribute) and n.func.attr in g_MUTATORS \
                        and isinstance(n.func.value, ast.Name):
                    out.add(n.func.value.id)
        return out

    # ---- for
    def for_stmt(self, s, rest, env, tail, in_loop):
        if s.orelse or not isinstance(s.target, ast.Name):
            raise Reject("%s: for shape" % where(s))
        pi, it, ki = self.expr(s.iter, env)
        if ki[0] != "list" or ki[1] not in (NODE, DATUM, SRC):
            raise Reject("%s: for over a value of kind %r" % (where(s), ki))
        v = self.name_ok(s.target.id, s.target)
        if v in env or v in self.assigned_names(s.body):
            raise Reject("%s: loop variable %r is rebound / shadows a name" % (where(s), v))
        vs = self.assigned(s.body, env)
        for n in ast.walk(s.iter):
            if (isinstance(n, ast.Name) and n.id in vs) or (is_self_attr(n) and self.fvar(n.attr) in vs):
                raise Reject("%s: the loop body modifies what the loop iterates over" % where(s))
        env2 = dict(env)
        env2[v] = ki[1]

        def tl(envb):
            for x in vs:
                if envb.get(x) != env.get(x):
                    if env[x][0] == "list" and env[x][1] is None and envb[x][0] == "list":
                        env[x] = envb[x]                      # `x = []` before the loop, first `.append` inside it
                    else:
                        raise Reject("%s: %r changes kind inside the loop" % (where(s), x))
            return "Val %s" % self.pat(vs)

        body = self.block(s.body, env2, tl, True)
        return self.lets(pi) + "py_let %s := py_for %s (fun %s %s =>\n%s) %s in\n%s" % (
            self.lam(vs), it, self.lam(vs), v, body, self.pat(vs), self.block(rest, env, tail, in_loop))


g_MUTATORS = ("append", "appendleft", "remove", "pop", "popleft", "add", "discard", "clear", "extend", "update", "insert", "sort",
              "reverse", "setdefault", "popitem", "rotate", "extendleft")


class Translator:
    def __init__(self, repo):
        self.repo = repo
        self.src_graph = open(os.path.join(repo, SRC_GRAPH)).read()
        self.src_model = open(os.path.join(repo, SRC_MODEL)).read()
        self.src_utils = open(os.path.join(repo, SRC_UTILS)).read()
        self.tree_graph = ast.parse(self.src_graph)
        self.tree_model = ast.parse(self.src_model)
        self.done = {}
        self.fields = []
        self.tmp = 0
        self.need_pins = set()
        self.pins = []
        self.uses_fpc = False

    # ------------------------------------------------------------------ one function / method
    def function(self, fd, name, params, is_method, src):
        a = fd.args
        if a.vararg or a.kwarg or a.kwonlyargs or a.posonlyargs or fd.decorator_list:
            raise Reject("function %s: signature shape" % name)
        want = (["self"] if is_method else []) + [p for p, _ in params]
        if [x.arg for x in a.args] != want:
            raise Reject("function %s: parameters are %r, expected %r" % (name, [x.arg for x in a.args], want))
        opt = [p for p, k in params if k[0] == "opt" or k == STATIC_NONE]
        if len(a.defaults) != len(opt) or any(not is_none(d) for d in a.defaults) or [p for p, _ in params][len(params) - len(opt):] != opt:
            raise Reject("function %s: defaults (every optional parameter must default to None)" % name)
        # a Python variable whose name belongs to the generated vocabulary is emitted with a trailing underscore
        stored = {n.id for n in ast.walk(fd) if isinstance(n, ast.Name) and isinstance(n.ctx, ast.Store)} | {p for p, _ in params}
        allnames = {n.id for n in ast.walk(fd) if isinstance(n, ast.Name)}
        for bad in sorted(x for x in stored if (x in RESERVED or x in self.done) and x not in ("self", "model")):
            if bad in ("list", "set", "dict", "len", "isinstance", "is_mapping", "DataPoint", "_base", "_Node") or bad + "_" in allnames \
                    or bad in [p for p, _ in params]:
                raise Reject("function %s: variable name %r cannot be renamed safely" % (name, bad))
            for n in ast.walk(fd):
                if isinstance(n, ast.Name) and n.id == bad:
                    n.id = bad + "_"
        f = Fn(self, name, params, is_method)
        # lists this function owns: names that are only ever bound to list displays / comprehensions (or to an element `v[0]`)
        binds = {}
        for n in ast.walk(fd):
            if isinstance(n, ast.Assign):
                for t in n.targets:
                    for el in (t.elts if isinstance(t, ast.Tuple) else [t]):
                        if isinstance(el, ast.Name):
                            binds.setdefault(el.id, []).append(n.value if not isinstance(t, ast.Tuple) else None)
            elif isinstance(n, (ast.For, ast.comprehension)) and isinstance(n.target, ast.Name):
                binds.setdefault(n.target.id, []).append(None)
        f.owned = {v for v, vals in binds.items() if v not in [q for q, _ in params]
                   and all(isinstance(x, (ast.List, ast.ListComp, ast.Subscript)) for x in vals)}
        calls = [ast.unparse(n.func) for n in ast.walk(fd) if isinstance(n, ast.Call)]
        subs_obj = any(isinstance(n, ast.Subscript) and isinstance(n.ctx, ast.Load) for n in ast.walk(fd))
        callees = [n.func.attr for n in ast.walk(fd) if isinstance(n, ast.Call) and is_self_attr(n.func) and n.func.attr in self.done]
        f.writes_w = "_base.call" in calls
        f.reads_w = f.writes_w or any(c.endswith(".state") for c in calls) or any(self.done[c]["reads_w"] for c in callees) \
            or (subs_obj and "__getitem__" in self.done and self.done["__getitem__"]["reads_w"] and not is_method)
        f.mutates = any(is_self_attr(n) and isinstance(n.ctx, ast.Store) for n in ast.walk(fd)) or any(
            isinstance(n, (ast.AugAssign,)) and isinstance(n.target, ast.Subscript) and is_self_attr(n.target.value) for n in ast.walk(fd))
        if f.mutates and not is_method:
            raise Reject("function %s: stores into self" % name)
        f.returns_self = False
        f.stores = False
        env = {p: k for p, k in params}
        for p, _ in params:
            f.name_ok(p, fd) if p not in ("model",) else None
        head = ""
        if is_method and name != "__init__":
            for at, k in self.fields:
                env[f.fvar(at)] = k
            head = "let '(mk%s %s) := self in\n" % (CLASS, " ".join(f.fvar(at) for at, _ in self.fields))
        if f.reads_w:
            env["w"] = WORLD

        def fall_off(envb):
            if name == "__init__":
                f.ret = OBJ
                return "Val %s" % f.self_term()
            if f.mutates:
                raise Reject("function %s: a method that assigns attributes must end in `return self`" % name)
            return f.finish("tt", UNIT, None)

        body = f.block(fd.body, env, fall_off, False)
        if f.ret is None:
            raise Reject("function %s: no return" % name)
        if f.mutates and name != "__init__" and not f.returns_self:
            raise Reject("function %s: assigns attributes but does not return self" % name)
        sig = []
        if is_method and name != "__init__":
            sig.append("(self : %s)" % CLASS)
        if f.reads_w:
            sig.append("(w : world)")
        sig += ["(%s : %s)" % (p, coqtype(k)) for p, k in params if k not in (MODEL, STATIC_NONE)]
        ret = T(WORLD, f.ret) if f.writes_w else f.ret
        self.done[name] = {"params": [(p, k) for p, k in params if k != MODEL], "ret": f.ret, "reads_w": f.reads_w,
                           "writes_w": f.writes_w, "mutates": f.mutates}
        cname = "%s_%s" % (CLASS, name) if is_method else name
        text = "(* %s :: %s%s *)\nDefinition %s %s : py (%s) :=\n%s%s." % (
            src, (CLASS + ".") if is_method else "", name, cname, " ".join(sig), coqtype(ret), head, body)
        return text, ast.get_source_segment(self.src_graph if is_method else self.src_model, fd)

    # ------------------------------------------------------------------ pinned texts
    def find_class(self, tree, name):
        cs = [n for n in tree.body if isinstance(n, ast.ClassDef) and n.name == name]
        if len(cs) != 1:
            raise Reject("class %s: %d definitions found" % (name, len(cs)))
        return cs[0]

    def check_pins(self):
        model = self.find_class(self.tree_model, "Model")
        props = {}
        for n in model.body:
            if isinstance(n, ast.FunctionDef) and any(ast.unparse(d) == "property" for d in n.decorator_list):
                props[n.name] = n
        for n in model.body:
            if isinstance(n, ast.FunctionDef) and any(ast.unparse(d).endswith(".setter") for d in n.decorator_list) \
                    and n.name in list(MODEL_ATTRS) + ["data_dispatcher"]:
                raise Reject("pin: Model.%s has a setter" % n.name)

        def plain(prop, attr):
            fd = props.get(prop)
            body = [x for x in fd.body if not (isinstance(x, ast.Expr) and isinstance(x.value, ast.Constant))] if fd else None
            if not body or len(body) != 1 or ast.unparse(body[0]) != "return self.%s" % attr:
                raise Reject("pin: Model.%s is not the plain property `return self.%s`" % (prop, attr))
            self.pins.append("Model.%s = self.%s" % (prop, attr))

        for p in sorted(self.need_pins):
            if p in MODEL_ATTRS:
                if MODEL_ATTRS[p][0] is None:
                    if p not in props:
                        raise Reject("pin: Model.%s is not a property" % p)
                    self.pins.append("Model.%s opaque" % p)
                else:
                    plain(p, MODEL_ATTRS[p][0])
            elif p == "dispatcher":
                plain("data_dispatcher", "_dispatcher")
                stores = [n for n in ast.walk(model) if isinstance(n, (ast.Assign, ast.AugAssign, ast.AnnAssign)) and any(
                    is_self_attr(t) and t.attr == "_dispatcher" for t in (n.targets if isinstance(n, ast.Assign) else [n.target]))]
                stores = [n for n in stores if not (isinstance(n, ast.AnnAssign) and n.value is None)]
                if not stores or any(not isinstance(n, ast.Assign) or len(n.targets) != 1 or ast.unparse(n.value) != "%s(self)" % CLASS
                                     for n in stores):
                    raise Reject("pin: every assignment of Model._dispatcher must be `%s(self)`" % CLASS)
                for other in ast.walk(self.tree_model):
                    if isinstance(other, ast.Attribute) and other.attr == "_dispatcher" and isinstance(other.ctx, ast.Store) \
                            and not is_self_attr(other):
                        raise Reject("pin: _dispatcher is stored through another name than self")
                self.pins.append("Model._dispatcher = %s(self) (%d sites)" % (CLASS, len(stores)))
            elif p == "DataPoint":
                hits = [n for n in self.tree_graph.body if isinstance(n, ast.Assign) and ast.unparse(n) == PIN_DP]
                anyd = [n for n in ast.walk(self.tree_graph) if isinstance(n, ast.Name) and n.id == "DataPoint" and isinstance(n.ctx, ast.Store)]
                if len(hits) != 1 or len(anyd) != 1:
                    raise Reject("pin: `%s` expected, once" % PIN_DP)
                self.pins.append(PIN_DP)
            elif p == "safe_defaultdict_copy":
                fns = [n for n in ast.parse(self.src_utils).body if isinstance(n, ast.FunctionDef) and n.name == "safe_defaultdict_copy"]
                if len(fns) != 1 or ast.unparse(fns[0]) != ast.unparse(ast.parse(PIN_SDC).body[0]):
                    raise Reject("pin: the text of utils.safe_defaultdict_copy changed")
                imp = [n for n in self.tree_graph.body if isinstance(n, ast.ImportFrom) and any(a.name == "safe_defaultdict_copy" and a.asname is None for a in n.names)]
                if len(imp) != 1 or imp[0].module is not None or imp[0].level != 1:
                    raise Reject("pin: graphflow.py must import safe_defaultdict_copy from reservoirpy.utils")
                self.pins.append("utils.safe_defaultdict_copy (text)")
        # forward is what Model._call runs
        init = [n for n in model.body if isinstance(n, ast.FunctionDef) and n.name == "__init__"]
        callf = [n for n in model.body if isinstance(n, ast.FunctionDef) and n.name == "_call"]
        fw_stores = [n for n in ast.walk(model) if isinstance(n, ast.Assign) and any(is_self_attr(t) and t.attr == "_forward" for t in n.targets)]
        if len(init) != 1 or len(callf) != 1 or not fw_stores or any(ast.unparse(n) != "self._forward = forward" for n in fw_stores):
            raise Reject("pin: Model._forward must be assigned `forward` only")
        if not any(isinstance(n, ast.Expr) and ast.unparse(n) == "self._forward(submodel, x)" for n in callf[0].body):
            raise Reject("pin: Model._call must run `self._forward(submodel, x)`")
        self.pins.append("Model._forward = forward; Model._call runs self._forward(submodel, x)")
        for nm in ("_base", "DataDispatcher"):
            bad = [n for n in ast.walk(self.tree_model) if isinstance(n, ast.Name) and n.id == nm and isinstance(n.ctx, ast.Store)]
            if bad:
                raise Reject("pin: %s is rebound in model.py" % nm)


def emit(repo):
    """-> text of coq/gen/Gen_dispatch.v translated from the tree <repo> (raises Reject)"""
    tr = Translator(repo)
    # find_parents_and_children through the unmodified C03 translator
    gt = g.Translator(tr.src_graph)
    fpc = [(n, p) for n, p in g.FUNCS if n == "find_parents_and_children"]
    fpc_text, fpc_seg = gt.function(*fpc[0])
    if gt.done["find_parents_and_children"]["monadic"] or gt.sites_n or gt.sites_e:
        raise Reject("find_parents_and_children: expected a pure function without set iteration")
    tr.done_graph = gt.done
    defs, segs = [fpc_text], [fpc_seg]
    cls = tr.find_class(tr.tree_graph, CLASS)
    meths = {n.name: n for n in cls.body if isinstance(n, ast.FunctionDef)}
    if len(meths) != len([n for n in cls.body if isinstance(n, ast.FunctionDef)]):
        raise Reject("class %s: a method is defined twice" % CLASS)
    if cls.bases or cls.decorator_list or cls.keywords:
        raise Reject("class %s: bases / decorators" % CLASS)
    for name, params in METHODS:
        if name not in meths:
            raise Reject("class %s: method %s not found" % (CLASS, name))
        t, seg = tr.function(meths[name], name, params, True, SRC_GRAPH)
        if name == "__init__":
            rec = "Record %s := mk%s { %s }." % (CLASS, CLASS, "; ".join("%s : %s" % ("f" + a, coqtype(k)) for a, k in tr.fields))
            # the record must precede the constructor; fields are known only after __init__ has been read
            t = rec + "\n\n" + t
        defs.append(t)
        segs.append(seg)
    fws = [n for n in tr.tree_model.body if isinstance(n, ast.FunctionDef) and n.name == FORWARD[0]]
    if len(fws) != 1:
        raise Reject("function forward: %d definitions found" % len(fws))
    t, seg = tr.function(fws[0], FORWARD[0], FORWARD[1], False, SRC_MODEL)
    defs.append(t)
    segs.append(seg)
    tr.check_pins()
    sha = hashlib.sha256("\n".join(segs).encode()).hexdigest()
    out = ["(* GENERATED by tools/vlib/py2coq_dispatch.py (%s, find_parents_and_children by %s) -- DO NOT EDIT." % (VERSION, g.VERSION),
           "   sources: %s :: find_parents_and_children, class %s (%s); %s :: forward" % (
               SRC_GRAPH, CLASS, ", ".join(n for n, _ in METHODS), SRC_MODEL),
           "   sha256 of their source texts: %s" % sha,
           "   pinned: " + "; ".join(tr.pins).replace("*)", "* )"),
           "   Regenerated by `./check C02` (pregen) and by setup (tools/regen.py).  Vocabulary: base/PyColl.v, PyColl2.v, PyColl3.v.",
           "   load is translated at Y = None (the call forward makes); node_state w n : `n.state()`; base_call n x w : `_base.call(n, x)`;",
           "   model_* : the lists Model.nodes / .edges / .input_nodes / .output_nodes / .trainable_nodes return; names are node ids. *)",
           "From Coq Require Import List Bool Arith ZArith.",
           "From RV Require Import base.PyColl base.PyColl2 base.PyColl3.",
           "Import ListNotations.", "",
           "Module GenDispatch.",
           "Section Gen.",
           "Variable datum : Type.",
           "Variable world : Type.",
           "Variable node_state : world -> node -> datum.",
           "Variable base_call : node -> xval datum -> world -> py world.",
           "Variable model_nodes model_input_nodes model_output_nodes model_trainable_nodes : list node.",
           "Variable model_edges : list edge.",
           "Variable sorted_by_name : list edge -> list edge.", ""]
    out += [d + "\n" for d in defs]
    out += ["End Gen.", "End GenDispatch.", ""]
    return "\n".join(out)


def pregen():
    """(re)write coq/gen/Gen_dispatch.v from the tree under test.  Returns None, or the error text (tie broken)."""
    import traceback
    from vlib import core
    gdir = os.path.join(core.COQ, "gen")
    os.makedirs(gdir, exist_ok=True)
    path = os.path.join(gdir, "Gen_dispatch.v")
    err = None
    try:
        text = emit(core.REPO)
    except Reject as ex:
        err = "translation rejected: %s" % ex
    except Exception:
        err = "translator exception: " + traceback.format_exc()[-1500:]
    if err is not None:
        # no model of the current source exists: never leave a stale one behind (the stub does not compile on purpose)
        text = "(* GENERATED: translation of %s / %s FAILED -- %s *)\nDefinition translation_failed : True := 0.\n" % (
            SRC_GRAPH, SRC_MODEL, err.replace("*)", "* )").replace("(*", "( *"))
    old = open(path).read() if os.path.exists(path) else None
    if old != text:                   # keep the mtime (and the compiled cone) when nothing changed
        with open(path, "w") as f:
            f.write(text)
    return ("unit dispatch: " + err) if err else None


if __name__ == "__main__":
    import sys
    sys.path.insert(0, os.path.dirname(os.path.dirname(os.path.abspath(__file__))))
    print(emit(sys.argv[1] if len(sys.argv) > 1 else "/repo"))
