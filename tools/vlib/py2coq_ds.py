"""Fail-closed translator for the dataset HELPERS of reservoirpy -> Gallina (tie (T) of property C20, DESIGN §6 / §8 C20).

Targets (declared in SPECS below):  reservoirpy/datasets/__init__.py :: to_forecasting
                                    reservoirpy/datasets/_utils.py   :: one_hot_encode   (two argument kinds, see below)

The translator parses the CURRENT text of the two functions with `ast` (paths under core.REPO, which honours VERIF_REPO) and
emits coq/gen/Gen_datasets.v over the vocabulary of coq/base/DSPrelude.v (the meaning of Python slicing with negative bounds,
round(), isinstance on the test_size argument, np.moveaxis, np.unique, np.eye[...], np.cumsum, np.split...).  Everything it
does not understand raises Reject: unknown call / attribute / statement shape, a slice with a step, an operator it cannot type,
a changed signature, an unexpected expression statement...  It never guesses.

Statements        x = e | a, b = e | if/elif/else | return e | return e1, .., en | raise ValueError(..) | skipped statements
                  (exact text, declared per function: the stray debugging print of one_hot_encode)
  A function returns `option`: `raise` is None, `return e` is Some e.  An `if` whose branches fall through is a join:
  py_bind (if c then .. Some (vars) else .. Some (vars)) (fun vars => rest), vars = the names assigned in the branches (they must
  have the same kind on every path).  An assignment whose right-hand side may raise (reshape, the recursive call) is a py_bind.
Kinds             NAT (nat: lengths, forecast) | INT (Z: Python ints) | RAT (Q: exact value of a float) | BOOL | PYARG (test_size)
                  ARR (the input array, opaque) | SERIES (time-major `list row`) | ND_A / ND_NAT / ND_ROW (ndarr of labels /
                  indices / encoded rows) | LIST_A | LIST_NAT | SEQS (Python list of 1-axis label arrays) | MATF | LIST_ND_ROW |
                  tuples.  Signed arithmetic (`-forecast`, `a - b`) is done in Z (nat operands injected with Z.of_nat).
isinstance        on test_size: py_is_float / py_is_int; reading the VALUE of test_size (comparison, product, int()) is accepted
                  only under an `and` / `if` that has established the constructor first (otherwise Reject).
                  on the argument of one_hot_encode: decided statically from the declared argument kind of the variant (a dead
                  branch of one variant is the live branch of the other); a test the kinds do not decide => Reject.
"""
import ast
import hashlib
import os
import warnings

from vlib.py2coq_la import Reject

VERSION = "py2coq_ds 1"


class Val:
    def __init__(self, kind, text, partial=False, static=None):
        self.kind, self.text, self.partial, self.static = kind, text, partial, static

    def p(self):
        t = self.text
        return t if t.replace("_", "a").replace("'", "a").isalnum() else "(" + t + ")"


def T(*ks):
    return ("T",) + tuple(ks)


COQTYPE = {"NAT": "nat", "INT": "Z", "RAT": "Q", "BOOL": "bool", "PYARG": "py_arg", "ARR": "arr", "SERIES": "(list row)",
           "AXIS": "(axis_view arr row)", "ND_A": "(ndarr A)", "ND_NAT": "(ndarr nat)", "ND_ROW": "(ndarr (list F))", "LIST_A": "(list A)",
           "LIST_NAT": "(list nat)", "SEQS": "(list (list A))", "MATF": "(list (list F))", "LIST_ND_ROW": "(list (ndarr (list F)))"}


def coqtype(k):
    if isinstance(k, tuple) and k[0] == "T":
        return "(" + " * ".join(coqtype(x) for x in k[1:]) + ")"
    if isinstance(k, tuple) and k[0] == "LIST":
        return "(list %s)" % coqtype(k[1])
    if k in COQTYPE:
        return COQTYPE[k]
    raise Reject("no Coq type for kind %s" % (k,))


RESERVED = set("""arr row A F H leb fun let in if then else match with end forall exists Some None true false nat list bool option
map length concat firstn skipn nth hd negb andb orb eye transpose py_bind py_bound py_slice py_arg PyNone PyInt PyFloat py_is_none
py_is_float py_is_int py_float_val py_int_val Qltb py_round py_trunc axis_view mv_in mv_out axis0_view axis1_view ndarr A1 A2 nd_ndim
nd_shape_last nd_reshape_drop_last nd_flat chunks nd_reshape_like nd_take np_concatenate nat_slice np_split_from nd_split
np_cumsum_from np_cumsum lab_eqb insert_sorted np_unique position np_unique_inverse Z Q S O Type Prop Set""".split())

_D = "reservoirpy/datasets/__init__.py"
_U = "reservoirpy/datasets/_utils.py"
SPECS = [
    {"name": "to_forecasting", "file": _D, "coqname": "to_forecasting", "section": "forecast",
     "params": [("timeseries", "ARR"), ("forecast", "NAT"), ("axis", "AXIS"), ("test_size", "PYARG")],
     "defaults": ["1", "0", "None"], "ret": "list", "skip": [], "static": {}},
    # y is an ndarray with 1 or 2 axes, or a Python list of scalars (np.array(y) makes it the 1-axis case)
    {"name": "one_hot_encode", "file": _U, "coqname": "one_hot_encode_arr", "section": "onehot",
     "params": [("y", "ND_A")], "ret": "pair", "skip": [],
     "static": {"isinstance(y, list)": None, "isinstance(y[0], np.ndarray)": False}},
    # y is a Python list of 1-axis arrays of labels
    {"name": "one_hot_encode", "file": _U, "coqname": "one_hot_encode_seqs", "section": "onehot",
     "params": [("y", "SEQS")], "ret": "pair",
     "skip": ["print(concatenated_encoded.shape, len(series_lengths))"],
     "static": {"isinstance(y, list)": True, "isinstance(y[0], np.ndarray)": True},
     "self_call": {"ND_A": ("one_hot_encode_arr", T("ND_ROW", "LIST_A"))}},
]
SECTIONS = {
    "forecast": ("Forecast", "Context {arr row : Type}."),
    "onehot": ("OneHot", "Context {A : Type} (leb : A -> A -> bool) {F : Type} `{Num F}."),
}


def _where(node):
    return "line %s" % getattr(node, "lineno", "?")


def _strip_doc(body):
    if body and isinstance(body[0], ast.Expr) and isinstance(body[0].value, ast.Constant) and isinstance(body[0].value.value, str):
        return body[1:]
    return body


def _is_name(node, name=None):
    return isinstance(node, ast.Name) and (name is None or node.id == name)


def _is_np(node, attr):
    return isinstance(node, ast.Attribute) and _is_name(node.value, "np") and node.attr == attr


def _const_int(node):
    """int value of a literal (possibly negated), else None"""
    if isinstance(node, ast.Constant) and isinstance(node.value, int) and not isinstance(node.value, bool):
        return node.value
    if isinstance(node, ast.UnaryOp) and isinstance(node.op, ast.USub):
        v = _const_int(node.operand)
        return None if v is None else -v
    return None


class FnTr:
    def __init__(self, spec, fn):
        self.spec, self.fn = spec, fn
        self.used_skips = set()
        self.arr_param = None

    # ------------------------------------------------------------------------------------------ coercions
    def to_int(self, v, node):
        if v.kind == "INT":
            return v.p()
        if v.kind == "NAT":
            return "(Z.of_nat %s)" % v.p()
        if v.kind == "INTLIT":
            return "(%s)%%Z" % v.text
        raise Reject("%s: an integer is expected, got kind %s" % (_where(node), v.kind))

    def to_rat(self, v, node):
        if v.kind == "RAT":
            return v.p()
        if v.kind in ("INT", "NAT", "INTLIT"):
            return "(inject_Z %s)" % self.to_int(v, node)
        raise Reject("%s: a number is expected, got kind %s" % (_where(node), v.kind))

    def to_nat(self, v, node):
        if v.kind == "NAT":
            return v.p()
        if v.kind == "INTLIT" and int(v.text) >= 0:
            return v.text
        raise Reject("%s: a natural number is expected, got kind %s" % (_where(node), v.kind))

    # ------------------------------------------------------------------------------------------ expressions
    def sub(self, node, env, facts):
        v = self.expr(node, env, facts)
        if v.partial:
            raise Reject("%s: an operation that may raise is only accepted as the whole right-hand side of an assignment" % _where(node))
        if v.static is not None or v.kind == "STATIC":
            raise Reject("%s: statically decided test used as a value" % _where(node))
        return v

    def pyarg_value(self, node, env, facts, want):
        """test_size used as a number: only where isinstance has established `want` ('float' | 'int')"""
        if _is_name(node) and node.id in env and env[node.id].kind == "PYARG":
            if (node.id, want) in facts:
                return env[node.id]
            if any(f[0] == node.id for f in facts):
                raise Reject("%s: %s is used as a %s but the enclosing isinstance test establishes another type" % (_where(node), node.id, want))
            raise Reject("%s: the value of %s is read without an enclosing isinstance test" % (_where(node), node.id))
        return None

    def num(self, node, env, facts):
        """numeric operand: a PYARG narrowed to float becomes RAT"""
        if _is_name(node) and node.id in env and env[node.id].kind == "PYARG":
            v = self.pyarg_value(node, env, facts, "float")
            return Val("RAT", "py_float_val %s" % v.p())
        return self.sub(node, env, facts)

    def expr(self, node, env, facts):
        if isinstance(node, ast.Name):
            if node.id not in env:
                raise Reject("%s: unknown name %s" % (_where(node), node.id))
            return env[node.id]
        if isinstance(node, ast.Constant):
            if isinstance(node.value, int) and not isinstance(node.value, bool):
                return Val("INTLIT", str(node.value))
            raise Reject("%s: constant %r not supported" % (_where(node), node.value))
        if isinstance(node, ast.UnaryOp):
            if isinstance(node.op, ast.USub):
                v = self.num(node.operand, env, facts)
                if v.kind == "RAT":
                    return Val("RAT", "(- %s)%%Q" % v.p())
                return Val("INT", "(- %s)%%Z" % self.to_int(v, node))
            if isinstance(node.op, ast.Not):
                v = self.sub(node.operand, env, facts)
                if v.kind != "BOOL":
                    raise Reject("%s: not on kind %s" % (_where(node), v.kind))
                return Val("BOOL", "negb %s" % v.p())
            raise Reject("%s: unary operator %s" % (_where(node), type(node.op).__name__))
        if isinstance(node, ast.BinOp):
            return self.binop(node, env, facts)
        if isinstance(node, ast.Compare):
            return self.compare(node, env, facts)
        if isinstance(node, ast.BoolOp):
            return self.cond(node, env, facts)[0]
        if isinstance(node, ast.Call):
            return self.call(node, env, facts)
        if isinstance(node, ast.Attribute):
            if node.attr == "ndim":
                v = self.sub(node.value, env, facts)
                if v.kind in ("ND_A", "ND_NAT", "ND_ROW"):
                    return Val("NAT", "nd_ndim %s" % v.p())
                raise Reject("%s: .ndim on kind %s" % (_where(node), v.kind))
            raise Reject("%s: attribute .%s not supported here" % (_where(node), node.attr))
        if isinstance(node, ast.Subscript):
            return self.subscript(node, env, facts)
        if isinstance(node, ast.ListComp):
            return self.listcomp(node, env, facts)
        raise Reject("%s: expression %s not supported" % (_where(node), type(node).__name__))

    def binop(self, node, env, facts):
        a, b = self.num(node.left, env, facts), self.num(node.right, env, facts)
        ops = {ast.Add: "+", ast.Sub: "-", ast.Mult: "*"}
        if type(node.op) not in ops:
            raise Reject("%s: operator %s not supported" % (_where(node), type(node.op).__name__))
        o = ops[type(node.op)]
        if "RAT" in (a.kind, b.kind):
            return Val("RAT", "(%s %s %s)%%Q" % (self.to_rat(a, node), o, self.to_rat(b, node)))
        if o != "-" and a.kind in ("NAT", "INTLIT") and b.kind in ("NAT", "INTLIT") and "NAT" in (a.kind, b.kind):
            return Val("NAT", "(%s %s %s)" % (self.to_nat(a, node), o, self.to_nat(b, node)))
        return Val("INT", "(%s %s %s)%%Z" % (self.to_int(a, node), o, self.to_int(b, node)))

    def compare(self, node, env, facts):
        if len(node.ops) != 1:
            raise Reject("%s: chained comparison" % _where(node))
        op, l, r = node.ops[0], node.left, node.comparators[0]
        if isinstance(op, (ast.Is, ast.IsNot)):
            if isinstance(r, ast.Constant) and r.value is None and _is_name(l) and l.id in env and env[l.id].kind == "PYARG":
                t = "py_is_none %s" % env[l.id].p()
                return Val("BOOL", t if isinstance(op, ast.Is) else "negb (%s)" % t)
            raise Reject("%s: `is` is only supported as `<test_size> is [not] None`" % _where(node))
        a, b = self.num(l, env, facts), self.num(r, env, facts)
        if "RAT" in (a.kind, b.kind):
            x, y = self.to_rat(a, node), self.to_rat(b, node)
            tab = {ast.Lt: "Qltb %s %s" % (x, y), ast.LtE: "Qle_bool %s %s" % (x, y), ast.Gt: "Qltb %s %s" % (y, x),
                   ast.GtE: "Qle_bool %s %s" % (y, x), ast.Eq: "Qeq_bool %s %s" % (x, y)}
        elif a.kind in ("NAT", "INTLIT") and b.kind in ("NAT", "INTLIT"):
            x, y = self.to_nat(a, node), self.to_nat(b, node)
            tab = {ast.Lt: "%s <? %s" % (x, y), ast.LtE: "%s <=? %s" % (x, y), ast.Gt: "%s <? %s" % (y, x),
                   ast.GtE: "%s <=? %s" % (y, x), ast.Eq: "%s =? %s" % (x, y)}
        else:
            x, y = self.to_int(a, node), self.to_int(b, node)
            tab = {ast.Lt: "(%s <? %s)%%Z" % (x, y), ast.LtE: "(%s <=? %s)%%Z" % (x, y), ast.Gt: "(%s >? %s)%%Z" % (x, y),
                   ast.GtE: "(%s >=? %s)%%Z" % (x, y), ast.Eq: "(%s =? %s)%%Z" % (x, y)}
        if type(op) not in tab:
            raise Reject("%s: comparison %s not supported" % (_where(node), type(op).__name__))
        return Val("BOOL", tab[type(op)])

    def cond(self, node, env, facts):
        """-> (Val BOOL | Val STATIC, facts established when the test is true)"""
        if isinstance(node, ast.BoolOp) and isinstance(node.op, ast.And):
            cur, vals = set(facts), []
            for c in node.values:
                v, new = self.cond(c, env, cur)
                cur |= new
                vals.append(v)
            new = cur - set(facts)
            if any(v.kind == "STATIC" and v.static is False for v in vals):
                return Val("STATIC", "", static=False), set()
            if any(v.kind == "STATIC" and v.static is None for v in vals):
                raise Reject("%s: the declared argument kind does not decide this test" % _where(node))
            dyn = [v for v in vals if v.kind != "STATIC"]
            if not dyn:
                return Val("STATIC", "", static=True), set()
            t = dyn[-1].p()
            for v in reversed(dyn[:-1]):
                t = "(andb %s %s)" % (v.p(), t)
            return Val("BOOL", t), new
        if isinstance(node, ast.BoolOp):
            vals = [self.cond(c, env, facts)[0] for c in node.values]
            if any(v.kind == "STATIC" for v in vals):
                raise Reject("%s: `or` over a statically decided test" % _where(node))
            t = vals[-1].p()
            for v in reversed(vals[:-1]):
                t = "(orb %s %s)" % (v.p(), t)
            return Val("BOOL", t), set()
        if isinstance(node, ast.Call) and _is_name(node.func, "isinstance"):
            return self.isinstance_(node, env)
        v = self.expr(node, env, facts)
        if v.partial or v.kind != "BOOL":
            raise Reject("%s: a test must be a boolean, got kind %s" % (_where(node), v.kind))
        return v, set()

    def isinstance_(self, node, env):
        if len(node.args) != 2 or node.keywords:
            raise Reject("%s: isinstance arity" % _where(node))
        txt = ast.unparse(node)
        if txt in self.spec["static"]:
            return Val("STATIC", "", static=self.spec["static"][txt]), set()
        x, ty = node.args
        if _is_name(x) and x.id in env and env[x.id].kind == "PYARG":
            if _is_name(ty, "float"):
                return Val("BOOL", "py_is_float %s" % env[x.id].p()), {(x.id, "float")}
            if ast.unparse(ty) == "(int, np.integer)":
                return Val("BOOL", "py_is_int %s" % env[x.id].p()), {(x.id, "int")}
        raise Reject("%s: isinstance test `%s` not understood" % (_where(node), txt))

    def call(self, node, env, facts):
        f = node.func
        args, kws = node.args, {k.arg: k.value for k in node.keywords}
        if _is_name(f, "isinstance"):
            return self.cond(node, env, facts)[0]
        if _is_name(f, "round") and len(args) == 1 and not kws:
            v = self.num(args[0], env, facts)
            if v.kind != "RAT":
                raise Reject("%s: round() of kind %s" % (_where(node), v.kind))
            return Val("INT", "py_round %s" % v.p())
        if _is_name(f, "int") and len(args) == 1 and not kws:
            a = args[0]
            if _is_name(a) and a.id in env and env[a.id].kind == "PYARG":
                if (a.id, "float") in facts:
                    return Val("INT", "py_trunc (py_float_val %s)" % env[a.id].p())
                self.pyarg_value(a, env, facts, "int")
                return Val("INT", "py_int_val %s" % env[a.id].p())
            v = self.sub(a, env, facts)
            if v.kind in ("NAT", "INT"):
                return v
            if v.kind == "RAT":
                return Val("INT", "py_trunc %s" % v.p())
            raise Reject("%s: int() of kind %s" % (_where(node), v.kind))
        if _is_name(f, "len") and len(args) == 1 and not kws:
            v = self.sub(args[0], env, facts)
            if v.kind in ("LIST_A", "LIST_NAT", "SEQS", "SERIES"):
                return Val("NAT", "length %s" % v.p())
            raise Reject("%s: len() of kind %s" % (_where(node), v.kind))
        if _is_name(f, self.fn.name):        # recursive call: resolved on the kind of the argument
            if len(args) != 1 or kws:
                raise Reject("%s: recursive call arity" % _where(node))
            v = self.sub(args[0], env, facts)
            tab = self.spec.get("self_call", {})
            if v.kind not in tab:
                raise Reject("%s: recursive call on an argument of kind %s" % (_where(node), v.kind))
            return Val(tab[v.kind][1], "%s %s" % (tab[v.kind][0], v.p()), partial=True)
        if _is_np(f, "moveaxis") and len(args) == 3 and not kws:
            a, src, dst = args
            av = self.sub(a, env, facts)
            ax = [n for n, v in env.items() if v.kind == "AXIS"]
            if len(ax) != 1:
                raise Reject("%s: no axis parameter" % _where(node))
            axv = env[ax[0]]
            if av.kind == "ARR" and _is_name(src, ax[0]) and _const_int(dst) == 0:
                return Val("SERIES", "mv_in %s %s" % (axv.p(), av.p()))
            if av.kind == "SERIES" and _const_int(src) == 0 and _is_name(dst, ax[0]):
                return Val("ARR", "mv_out %s %s %s" % (axv.p(), self.arr_param, av.p()))
            raise Reject("%s: np.moveaxis is only understood as (array, axis, 0) and (time-major part, 0, axis)" % _where(node))
        if _is_np(f, "array") and len(args) == 1 and not kws:
            v = self.sub(args[0], env, facts)
            if v.kind == "ND_A":
                return v
            raise Reject("%s: np.array of kind %s" % (_where(node), v.kind))
        if _is_np(f, "cumsum") and len(args) == 1 and not kws:
            v = self.sub(args[0], env, facts)
            if v.kind == "LIST_NAT":
                return Val("LIST_NAT", "np_cumsum %s" % v.p())
            raise Reject("%s: np.cumsum of kind %s" % (_where(node), v.kind))
        if _is_np(f, "concatenate") and len(args) == 1 and not kws:
            v = self.sub(args[0], env, facts)
            if v.kind == "SEQS":
                return Val("ND_A", "np_concatenate %s" % v.p())
            raise Reject("%s: np.concatenate of kind %s" % (_where(node), v.kind))
        if _is_np(f, "split") and len(args) == 2 and not kws:
            a, i = self.sub(args[0], env, facts), self.sub(args[1], env, facts)
            if a.kind == "ND_ROW" and i.kind == "LIST_NAT":
                return Val("LIST_ND_ROW", "nd_split %s %s" % (a.p(), i.p()))
            raise Reject("%s: np.split of kinds %s, %s" % (_where(node), a.kind, i.kind))
        if _is_np(f, "unique") and len(args) == 1 and list(kws) == ["return_inverse"]:
            ri = kws["return_inverse"]
            v = self.sub(args[0], env, facts)
            if isinstance(ri, ast.Constant) and ri.value is True and v.kind == "ND_A":
                return Val(T("LIST_A", "LIST_NAT"), "np_unique_inverse leb %s" % v.p())
            raise Reject("%s: np.unique is only understood as np.unique(<labels>, return_inverse=True)" % _where(node))
        if _is_np(f, "eye") and len(args) == 1 and not kws:
            v = self.sub(args[0], env, facts)
            return Val("MATF", "eye %s" % self.to_nat(v, node))
        if isinstance(f, ast.Attribute) and f.attr == "view" and not args and not kws:
            v = self.sub(f.value, env, facts)
            if v.kind == "ARR":
                return v
            raise Reject("%s: .view() of kind %s" % (_where(node), v.kind))
        if isinstance(f, ast.Attribute) and f.attr == "reshape" and len(args) == 1 and not kws:
            v = self.sub(f.value, env, facts)
            a = args[0]
            # y.reshape(y.shape[:-1])
            if (v.kind == "ND_A" and isinstance(a, ast.Subscript) and isinstance(a.slice, ast.Slice) and a.slice.lower is None
                    and a.slice.step is None and _const_int(a.slice.upper) == -1 and isinstance(a.value, ast.Attribute)
                    and a.value.attr == "shape" and ast.unparse(a.value.value) == ast.unparse(f.value)):
                return Val("ND_A", "nd_reshape_drop_last %s" % v.p(), partial=True)
            # idx.reshape(y.shape)
            if v.kind == "LIST_NAT" and isinstance(a, ast.Attribute) and a.attr == "shape":
                w = self.sub(a.value, env, facts)
                if w.kind == "ND_A":
                    return Val("ND_NAT", "nd_reshape_like %s %s" % (w.p(), v.p()))
            raise Reject("%s: reshape `%s` not understood" % (_where(node), ast.unparse(node)))
        raise Reject("%s: call `%s` not supported" % (_where(node), ast.unparse(node)[:80]))

    def bound(self, node, env, facts):
        if node is None:
            return "None"
        v = self.num(node, env, facts)
        return "(Some %s)" % self.to_int(v, node)

    def subscript(self, node, env, facts):
        val, sl = node.value, node.slice
        # X.shape[k]
        if isinstance(val, ast.Attribute) and val.attr == "shape":
            v = self.sub(val.value, env, facts)
            k = _const_int(sl)
            if k == 0 and v.kind in ("SERIES", "LIST_A", "LIST_NAT"):
                return Val("NAT", "length %s" % v.p())
            if k == -1 and v.kind in ("ND_A", "ND_NAT", "ND_ROW"):
                return Val("NAT", "nd_shape_last %s" % v.p())
            raise Reject("%s: `%s` not understood" % (_where(node), ast.unparse(node)))
        v = self.sub(val, env, facts)
        if isinstance(sl, ast.Slice):
            if sl.step is not None:
                raise Reject("%s: slice with a step" % _where(node))
            if v.kind in ("SERIES", "LIST_NAT", "LIST_A"):
                return Val(v.kind, "py_slice %s %s %s" % (self.bound(sl.lower, env, facts), self.bound(sl.upper, env, facts), v.p()))
            raise Reject("%s: slice of kind %s" % (_where(node), v.kind))
        if isinstance(sl, ast.Tuple):
            raise Reject("%s: multi-axis index" % _where(node))
        i = self.sub(sl, env, facts)
        if v.kind == "MATF" and i.kind == "ND_NAT":
            return Val("ND_ROW", "nd_take %s %s" % (v.p(), i.p()))
        raise Reject("%s: index of kind %s into kind %s" % (_where(node), i.kind, v.kind))

    def listcomp(self, node, env, facts):
        if len(node.generators) != 1:
            raise Reject("%s: nested comprehension" % _where(node))
        g = node.generators[0]
        if g.ifs or g.is_async or not _is_name(g.target):
            raise Reject("%s: comprehension shape" % _where(node))
        it = self.sub(g.iter, env, facts)
        if it.kind != "SEQS":
            raise Reject("%s: comprehension over kind %s" % (_where(node), it.kind))
        name = self.ident(g.target.id, node)
        e = self.sub(node.elt, dict(env, **{g.target.id: Val("LIST_A", name)}), facts)
        if e.kind != "NAT":
            raise Reject("%s: comprehension element of kind %s" % (_where(node), e.kind))
        return Val("LIST_NAT", "map (fun %s => %s) %s" % (name, e.text, it.p()))

    # ------------------------------------------------------------------------------------------ statements
    def ident(self, name, node):
        if name in RESERVED or not name.replace("_", "a").isalnum() or name.startswith("_"):
            raise Reject("%s: variable name %s collides with the Coq vocabulary" % (_where(node), name))
        return name

    @staticmethod
    def terminates(stmts):
        if not stmts:
            return False
        s = stmts[-1]
        if isinstance(s, (ast.Return, ast.Raise)):
            return True
        if isinstance(s, ast.If):
            return FnTr.terminates(s.body) and FnTr.terminates(s.orelse)
        return False

    @staticmethod
    def assigned(stmts):
        out = []
        for s in stmts:
            for n in ast.walk(s):
                if isinstance(n, ast.Assign):
                    for t in n.targets:
                        for m in ast.walk(t):
                            if isinstance(m, ast.Name) and m.id not in out:
                                out.append(m.id)
        return out

    def block(self, stmts, env, facts, tail, ind):
        pad = "  " * ind
        if not stmts:
            return tail(env, ind)
        s, rest = stmts[0], stmts[1:]
        if isinstance(s, ast.Assign):
            if len(s.targets) != 1:
                raise Reject("%s: chained assignment" % _where(s))
            tg = s.targets[0]
            v = self.expr(s.value, env, facts)
            if v.kind == "STATIC":
                raise Reject("%s: statically decided test used as a value" % _where(s))
            if isinstance(tg, ast.Name):
                if v.kind == "INTLIT":
                    v = Val("INT", "(%s)%%Z" % v.text)
                if isinstance(v.kind, tuple):
                    raise Reject("%s: a tuple is bound to a single name" % _where(s))
                name = self.ident(tg.id, s)
                env2 = dict(env, **{tg.id: Val(v.kind, name)})
                pat = name
            elif isinstance(tg, ast.Tuple) and all(isinstance(e, ast.Name) for e in tg.elts):
                if not (isinstance(v.kind, tuple) and v.kind[0] == "T" and len(v.kind) - 1 == len(tg.elts)):
                    raise Reject("%s: tuple assignment from kind %s" % (_where(s), v.kind))
                names = [self.ident(e.id, s) for e in tg.elts]
                env2 = dict(env, **{e.id: Val(k, n) for e, k, n in zip(tg.elts, v.kind[1:], names)})
                pat = "'(%s)" % ", ".join(names)
            else:
                raise Reject("%s: assignment target not supported (in-place update?)" % _where(s))
            body = self.block(rest, env2, facts, tail, ind)
            if v.partial:
                return "%spy_bind (%s) (fun %s =>\n%s)" % (pad, v.text, pat, body)
            return "%slet %s := %s in\n%s" % (pad, pat, v.text, body)
        if isinstance(s, ast.Expr):
            txt = ast.unparse(s)
            if txt in self.spec["skip"]:
                self.used_skips.add(txt)
                return self.block(rest, env, facts, tail, ind)
            raise Reject("%s: expression statement `%s` is not a declared skipped statement" % (_where(s), txt[:80]))
        if isinstance(s, ast.Return):
            if rest:
                raise Reject("%s: code after return" % _where(s))
            return pad + self.ret(s, env, facts)
        if isinstance(s, ast.Raise):
            if rest:
                raise Reject("%s: code after raise" % _where(s))
            if not (isinstance(s.exc, ast.Call) and _is_name(s.exc.func, "ValueError")) or s.cause is not None:
                raise Reject("%s: only `raise ValueError(...)` is understood" % _where(s))
            return pad + "None"
        if isinstance(s, ast.If):
            c, new = self.cond(s.test, env, facts)
            if c.kind == "STATIC":
                if c.static is None:
                    raise Reject("%s: the declared argument kind does not decide this test" % _where(s))
                live = s.body if c.static else s.orelse
                if self.terminates(live):
                    return self.block(live, env, facts, tail, ind)          # what follows is dead for this argument kind
                return self.block(list(live) + list(rest), env, facts, tail, ind)
            tfacts = set(facts) | new
            bt, et = self.terminates(s.body), self.terminates(s.orelse)
            if bt and et and rest:
                raise Reject("%s: code after an if whose branches all return" % _where(s))
            if not rest:
                b1 = self.block(s.body, env, tfacts, tail, ind + 1)
                b2 = self.block(s.orelse, env, facts, tail, ind + 1)
                return "%sif %s then\n%s\n%selse\n%s" % (pad, c.text, b1, pad, b2)
            if bt and not s.orelse:
                b1 = self.block(s.body, env, tfacts, tail, ind + 1)
                b2 = self.block(rest, env, facts, tail, ind + 1)
                return "%sif %s then\n%s\n%selse\n%s" % (pad, c.text, b1, pad, b2)
            # join: the names assigned in the branches are passed on
            names = self.assigned(list(s.body) + list(s.orelse))
            if not names:
                raise Reject("%s: an if that neither returns nor assigns" % _where(s))
            seen = []

            def jtail(e, i):
                for n in names:
                    if n not in e:
                        raise Reject("%s: %s is not defined on every path through this if" % (_where(s), n))
                seen.append(tuple(e[n].kind for n in names))
                t = ", ".join(e[n].text for n in names)
                return "%sSome %s" % ("  " * i, ("(%s)" % t) if len(names) > 1 else t)
            b1 = self.block(s.body, env, tfacts, jtail, ind + 2)
            b2 = self.block(s.orelse, env, facts, jtail, ind + 2)
            if not seen or any(k != seen[0] for k in seen):
                raise Reject("%s: the names assigned in this if do not have the same kinds on every path: %s" % (_where(s), seen))
            cn = [self.ident(n, s) for n in names]
            env2 = dict(env, **{n: Val(k, c_) for n, k, c_ in zip(names, seen[0], cn)})
            pat = cn[0] if len(cn) == 1 else "'(%s)" % ", ".join(cn)
            body = self.block(rest, env2, facts, tail, ind)
            return "%spy_bind (if %s then\n%s\n%s  else\n%s) (fun %s =>\n%s)" % (pad, c.text, b1, pad, b2, pat, body)
        raise Reject("%s: statement %s not supported" % (_where(s), type(s).__name__))

    def ret(self, s, env, facts):
        if s.value is None:
            raise Reject("%s: bare return" % _where(s))
        if isinstance(s.value, ast.Tuple):
            vals = [self.sub(e, env, facts) for e in s.value.elts]
        else:
            vals = [self.sub(s.value, env, facts)]
        if self.spec["ret"] == "list":
            if any(v.kind != vals[0].kind for v in vals):
                raise Reject("%s: the returned arrays do not all have the same kind" % _where(s))
            k = ("LIST", vals[0].kind)
            t = "[%s]" % "; ".join(v.text for v in vals)
        else:
            k = T(*[v.kind for v in vals]) if len(vals) > 1 else vals[0].kind
            t = "(%s)" % ", ".join(v.text for v in vals)
        if getattr(self, "ret_kind", k) != k:
            raise Reject("%s: return of kind %s, another return has kind %s" % (_where(s), k, self.ret_kind))
        self.ret_kind = k
        return "Some %s" % t

    def translate(self):
        a = self.fn.args
        if a.vararg or a.kwarg or a.kwonlyargs or a.posonlyargs:
            raise Reject("signature shape changed")
        got = [x.arg for x in a.args]
        want = [n for n, _ in self.spec["params"]]
        if got != want:
            raise Reject("parameters %s, declared %s" % (got, want))
        dflt = [ast.unparse(d) for d in a.defaults]
        if dflt != self.spec.get("defaults", []):      # a changed default changes the meaning of every call that omits the argument
            raise Reject("default values %s, declared %s" % (dflt, self.spec.get("defaults", [])))
        env, params = {}, []
        for n, k in self.spec["params"]:
            c = self.ident(n, self.fn)
            env[n] = Val(k, c)
            params.append("(%s : %s)" % (c, coqtype(k)))
            if k == "ARR":
                self.arr_param = c

        def end(e, i):
            raise Reject("the function can fall off its end without a return")
        body = self.block(_strip_doc(self.fn.body), env, set(), end, 1)
        # a declared skipped statement that has disappeared from the source is not an error (there is nothing left to ignore)
        return params, body, self.ret_kind


def find_function(tree, name):
    hits = [n for n in tree.body if isinstance(n, ast.FunctionDef) and n.name == name]
    if len(hits) != 1:
        raise Reject("function %s: %d top-level definitions" % (name, len(hits)))
    return hits[0]


def emit(repo):
    """-> Coq source text of coq/gen/Gen_datasets.v (raises Reject)"""
    heads, secs = [], {}
    for sp in SPECS:
        path = os.path.join(repo, sp["file"])
        try:
            src = open(path).read()
            with warnings.catch_warnings():
                warnings.simplefilter("ignore")          # invalid escape sequences in the docstrings of the source
                tree = ast.parse(src)
        except (OSError, SyntaxError) as ex:
            raise Reject("%s: cannot read/parse: %s" % (sp["file"], ex))
        fn = find_function(tree, sp["name"])
        if fn.decorator_list:
            raise Reject("%s: %s is decorated" % (sp["file"], sp["name"]))
        seg = ast.get_source_segment(src, fn) or ""
        tr = FnTr(sp, fn)
        try:
            params, body, rk = tr.translate()
        except Reject as ex:
            raise Reject("%s, function %s (as %s): %s" % (sp["file"], sp["name"], sp["coqname"], ex))
        sha = hashlib.sha256(seg.encode()).hexdigest()
        heads.append("     %s :: %s  (as %s)  sha256(source segment) = %s" % (sp["file"], sp["name"], sp["coqname"], sha))
        d = "(* %s :: %s%s *)\nDefinition %s %s : option %s :=\n%s." % (
            sp["file"], sp["name"],
            "".join("   [skipped statement: %s]" % t for t in sp["skip"]),
            sp["coqname"], " ".join(params), coqtype(rk), body)
        secs.setdefault(sp["section"], []).append(d)
    out = ["(* GENERATED by tools/vlib/py2coq_ds.py (%s) from the current source text of" % VERSION] + heads + [
        "   -- DO NOT EDIT.  Regenerated by `./check C20` (pregen) and by tools/regen.py.  Vocabulary: base/DSPrelude.v (Python slicing,",
        "   round, isinstance on test_size, np.moveaxis through an axis_view, np.unique/eye/cumsum/split on ndarr) and base/LA.v (eye).",
        "   A function returns an option: None = raise ValueError; a returned tuple of arrays of one kind is the list of its components. *)",
        "From Coq Require Import List Bool Arith ZArith QArith.",
        "From RV Require Import base.Num base.LA base.DSPrelude.",
        "Import ListNotations.",
        "Close Scope Q_scope.", "",
        "Module GenDatasets."]
    for key, (secname, ctx) in SECTIONS.items():
        if key not in secs:
            continue
        out += ["Section %s." % secname, ctx, ""]
        for d in secs[key]:
            out += [d, ""]
        out += ["End %s." % secname, ""]
    out += ["End GenDatasets.", ""]
    return "\n".join(out)


if __name__ == "__main__":
    import sys
    from vlib import core
    try:
        sys.stdout.write(emit(core.REPO))
    except Reject as ex:
        sys.stderr.write("REJECT: %s\n" % ex)
        sys.exit(1)
