"""Fail-closed translator for the PARALLEL GLUE of reservoirpy/nodes/esn.py -> Gallina (tie (T) of property C09, DESIGN §8 C09).

Targets   reservoirpy/nodes/esn.py :: _sort_and_unpack, _run_fn (its `return idx, states, last_states` only: the rest of the body is an
                                      opaque function of the arguments other than idx), _run_partial_fit_fn (signature only),
                                      ESN.run (dispatch + state carry-over + result ordering), ESN.fit (lock rule, dispatch,
                                      except: clean_buffers; raise, last state, readout.fit)

It parses the CURRENT text with `ast` (paths under core.REPO, which honours VERIF_REPO) and emits coq/gen/Gen_parallel.v over the
vocabulary of coq/base/ParPrelude.v.  Everything it does not understand raises Reject; it never guesses.

  expressions  names | int / str literals | sorted(l, key=lambda s: e) on the results list (key: a natural) | e[0] e[1] e[2] on a result tuple |
               l[i], l[-1] on a list (IndexError) | d[k] (KeyError) | d.keys() | len(e) | {n: e for n in keys} | [e for s in results] |
               a == b on naturals | x is None on an optional | a and b (b pure) | a or b, a > b, a < b on integers, a != "str" on the backend |
               _sort_and_unpack(states, return_states=rs)
  statements   x = e (rebinding changes the kind: dynamic typing) | for n, s in d.items(): [if c:] d[n] = e (only write: the visited key) |
               if c: x = e (no else; the continuation is translated once per branch) | return e |
               with Parallel(n_jobs=..., backend=...) as parallel: v = parallel(delayed(f)(names...) for pat in [enumerate(]zip(a, b)[)]) |
               a, b = e; self.reservoir._state = a; self.readout._state = b | if c: lock = Manager().Lock() else: lock = None |
               try: <with Parallel ...> except Exception: self.readout.clean_buffers(); raise
  pinned       statements of ESN.run / ESN.fit that are OUTSIDE the model, accepted only with exactly the text below (anything else is rejected):
               to_data_mapping (the generated parameters X, Y / forced_feedbacks are the lists AFTER it), _initialize_on_sequence,
               get_joblib_backend, progress (seq is X), with self.with_state(...) (entered; the restore on exit is C08's), verbosity print.
"""
import ast
import hashlib
import os

from vlib.py2coq_la import Reject

VERSION = "py2coq_par 1"
_E = "reservoirpy/nodes/esn.py"


def _where(node):
    return "%s:%s" % (_E, getattr(node, "lineno", "?"))


def _src(node):
    return ast.unparse(node)


class Tr:
    def __init__(self):
        self.n = 0
        self.pure_only = False

    def fresh(self, base):
        self.n += 1
        return "%s_%d" % (base, self.n)

    # ------------------------------------------------------------------ expressions (continuation style; result type of k: res _)
    def bindk(self, term, kind, k, base="t"):
        if self.pure_only:
            raise Reject("an operation that may raise occurs where only a pure expression is understood: %s" % term)
        v = self.fresh(base)
        return "bind (%s) (fun %s => %s)" % (term, v, k(v, kind))

    def pure(self, e, env):
        """translate an expression that cannot raise; returns (term, kind)"""
        got = []
        old, self.pure_only = self.pure_only, True
        try:
            self.expr(e, env, lambda t, kd: got.append((t, kd)) or "")
        finally:
            self.pure_only = old
        if len(got) != 1:
            raise Reject("%s: not a simple pure expression: %s" % (_where(e), _src(e)))
        return got[0]

    def const_index(self, sl):
        if isinstance(sl, ast.Constant) and type(sl.value) is int:
            return sl.value
        if isinstance(sl, ast.UnaryOp) and isinstance(sl.op, ast.USub) and isinstance(sl.operand, ast.Constant) and type(sl.operand.value) is int:
            return -sl.operand.value
        return None

    def expr(self, e, env, k):
        if isinstance(e, ast.Name):
            if e.id not in env:
                raise Reject("%s: unknown name %r" % (_where(e), e.id))
            return k(*env[e.id])
        if isinstance(e, ast.Constant):
            if type(e.value) is int and e.value >= 0:
                return k(str(e.value), "INT")
            if type(e.value) is str and '"' not in e.value:
                return k('"%s"%%string' % e.value, "KEY")
            raise Reject("%s: literal %r" % (_where(e), e.value))
        if isinstance(e, ast.Subscript):
            return self.subscript(e, env, k)
        if isinstance(e, ast.Call):
            return self.call(e, env, k)
        if isinstance(e, ast.DictComp):
            if len(e.generators) != 1 or e.generators[0].ifs or e.generators[0].is_async or not isinstance(e.generators[0].target, ast.Name) \
                    or not isinstance(e.key, ast.Name) or e.key.id != e.generators[0].target.id:
                raise Reject("%s: dict comprehension shape" % _where(e))
            g = e.generators[0]

            def with_keys(ks, kd):
                if kd != "KEYS":
                    raise Reject("%s: dict comprehension over a %s" % (_where(e), kd))
                n = self.fresh(g.target.id)
                inner = self.expr(e.value, dict(env, **{g.target.id: (n, "KEY")}), lambda t, kd2: "Ok %s" % self.box(t, kd2, e))
                return self.bindk("dict_comp %s (fun %s => %s)" % (ks, n, inner), "OUTDICT", k, "d")
            return self.expr(g.iter, env, with_keys)
        if isinstance(e, ast.ListComp):
            if len(e.generators) != 1 or e.generators[0].ifs or e.generators[0].is_async or not isinstance(e.generators[0].target, ast.Name):
                raise Reject("%s: list comprehension shape" % _where(e))
            g = e.generators[0]

            def with_list(l, kd):
                if kd != "RESULTS":
                    raise Reject("%s: list comprehension over a %s" % (_where(e), kd))
                s = self.fresh(g.target.id)

                def fin(t, kd2):
                    if kd2 != "V":
                        raise Reject("%s: list of %s" % (_where(e), kd2))
                    return "Ok %s" % t
                inner = self.expr(e.elt, dict(env, **{g.target.id: (s, "TUP3")}), fin)
                return self.bindk("list_comp %s (fun %s => %s)" % (l, s, inner), "LISTV", k, "l")
            return self.expr(g.iter, env, with_list)
        if isinstance(e, ast.Compare) and len(e.ops) == 1:
            return self.compare(e, env, k)
        if isinstance(e, ast.BoolOp):
            op = {"And": "&&", "Or": "||"}[type(e.op).__name__]

            def go(vals, acc):
                if not vals:
                    return k(acc, "BOOL")
                if acc is None:          # the first operand may raise (it is evaluated unconditionally)
                    return self.expr(vals[0], env, lambda t, kd: self.need(kd, "BOOL", vals[0]) or go(vals[1:], t))
                t, kd = self.pure(vals[0], env)        # later operands are evaluated lazily: accepted only when they cannot raise
                self.need(kd, "BOOL", vals[0])
                return go(vals[1:], "(%s %s %s)" % (acc, op, t))
            return go(list(e.values), None)
        raise Reject("%s: expression not understood: %s" % (_where(e), _src(e)))

    def need(self, kd, want, node):
        if kd != want:
            raise Reject("%s: %s expected, %s found: %s" % (_where(node), want, kd, _src(node)))
        return None

    def box(self, t, kd, node):
        if kd == "LISTV":
            return "(PList %s)" % t
        if kd == "PV":
            return t
        if kd == "V":
            return "(PItem %s)" % t
        raise Reject("%s: a %s cannot be stored in the result dict" % (_where(node), kd))

    def subscript(self, e, env, k):
        def with_base(b, kd):
            i = self.const_index(e.slice)
            if kd == "TUP3":
                if i in (0, 1, 2):
                    return k("(tup%d %s)" % (i, b), ("NAT", "INDICT", "LAST")[i])
                raise Reject("%s: component %s of a result tuple" % (_where(e), _src(e.slice)))
            if kd == "RESULTS":
                if i is not None and i >= 0:
                    return self.bindk("list_get %s %d" % (b, i), "TUP3", k, "s")
                if i == -1:
                    return self.bindk("list_last %s" % b, "TUP3", k, "s")
                raise Reject("%s: index %s" % (_where(e), _src(e.slice)))
            if kd == "PV":
                if i is not None and i >= 0:
                    return self.bindk("pv_get %s %d" % (b, i), "PV", k, "e")
                raise Reject("%s: index %s" % (_where(e), _src(e.slice)))
            if kd in ("INDICT", "OUTDICT"):
                key, kk = self.pure(e.slice, env)
                self.need(kk, "KEY", e.slice)
                return self.bindk("dict_get %s %s" % (b, key), "V" if kd == "INDICT" else "PV", k, "v")
            raise Reject("%s: subscript of a %s" % (_where(e), kd))
        return self.expr(e.value, env, with_base)

    def call(self, e, env, k):
        f = e.func
        if isinstance(f, ast.Name) and f.id == "sorted":
            if len(e.args) != 1 or len(e.keywords) != 1 or e.keywords[0].arg != "key" or not isinstance(e.keywords[0].value, ast.Lambda):
                raise Reject("%s: sorted(l, key=lambda ...) expected" % _where(e))
            lam = e.keywords[0].value
            a = lam.args
            if len(a.args) != 1 or a.vararg or a.kwarg or a.kwonlyargs or a.defaults or a.posonlyargs:
                raise Reject("%s: key function shape" % _where(e))

            def with_list(l, kd):
                self.need(kd, "RESULTS", e.args[0])
                s = self.fresh(a.args[0].arg)
                body, bk = self.pure(lam.body, dict(env, **{a.args[0].arg: (s, "TUP3")}))
                if bk != "NAT":
                    raise Reject("%s: the sort key is a %s, not the natural index of the result tuple: %s" % (_where(lam), bk, _src(lam)))
                return k("(py_sorted (fun %s => %s) %s)" % (s, body, l), "RESULTS")
            return self.expr(e.args[0], env, with_list)
        if isinstance(f, ast.Name) and f.id == "len" and len(e.args) == 1 and not e.keywords:
            def with_arg(t, kd):
                if kd == "PV":
                    return self.bindk("pv_len %s" % t, "NAT", k, "n")
                if kd == "OUTDICT":
                    return k("(dict_len %s)" % t, "NAT")
                if kd in ("RESULTS", "LISTV"):
                    return k("(length %s)" % t, "NAT")
                raise Reject("%s: len of a %s" % (_where(e), kd))
            return self.expr(e.args[0], env, with_arg)
        if isinstance(f, ast.Attribute) and f.attr == "keys" and not e.args and not e.keywords:
            return self.expr(f.value, env, lambda t, kd: self.need(kd, "INDICT", f.value) or k("(dict_keys %s)" % t, "KEYS"))
        if isinstance(f, ast.Name) and f.id == "_sort_and_unpack":
            params = ["states", "return_states"]
            given = {}
            for p, a in zip(params, e.args):
                given[p] = a
            if len(e.args) > 2:
                raise Reject("%s: arguments of _sort_and_unpack" % _where(e))
            for kw in e.keywords:
                if kw.arg not in params or kw.arg in given:
                    raise Reject("%s: arguments of _sort_and_unpack" % _where(e))
                given[kw.arg] = kw.value
            if "states" not in given:
                raise Reject("%s: arguments of _sort_and_unpack" % _where(e))
            st, sk = self.pure(given["states"], env)
            self.need(sk, "RESULTS", given["states"])
            if "return_states" in given:
                rs, rk = self.pure(given["return_states"], env)
                self.need(rk, "OPT", given["return_states"])
            else:
                rs = "None"
            return self.bindk("sort_and_unpack_ %s %s" % (st, rs), "UNPACKED", k, "out")
        raise Reject("%s: call not understood: %s" % (_where(e), _src(e)))

    def compare(self, e, env, k):
        op, l, r = e.ops[0], e.left, e.comparators[0]
        if isinstance(op, ast.Is) and isinstance(r, ast.Constant) and r.value is None:
            t, kd = self.pure(l, env)
            self.need(kd, "OPT", l)
            return k("(is_none %s)" % t, "BOOL")

        def with_l(a, ka):
            b, kb = self.pure(r, env)
            if isinstance(op, ast.Eq) and ka in ("NAT", "INT") and kb in ("NAT", "INT"):
                return k("(Nat.eqb %s %s)" % (a, b), "BOOL")
            if ka == "Z" and kb == "INT" and isinstance(op, (ast.Gt, ast.Lt)):
                return k("(%s %s %s)%%Z" % (a, {"Gt": ">?", "Lt": "<?"}[type(op).__name__], b), "BOOL")
            if ka == "BACKEND" and kb == "KEY" and isinstance(op, ast.NotEq):
                return k("(backend_ne %s %s)" % (a, b), "BOOL")
            raise Reject("%s: comparison not understood: %s" % (_where(e), _src(e)))
        return self.expr(l, env, with_l)

    # ------------------------------------------------------------------ statements of _sort_and_unpack-like code
    def block(self, stmts, env, ret):
        """ret(term, kind, env) -> Coq term for `return`"""
        if not stmts:
            raise Reject("%s: control reaches the end of the function without `return`" % _E)
        s, rest = stmts[0], stmts[1:]
        if isinstance(s, ast.Return) and s.value is not None:
            return self.expr(s.value, env, lambda t, kd: ret(t, kd, env))
        if isinstance(s, ast.Assign) and len(s.targets) == 1 and isinstance(s.targets[0], ast.Name):
            x = s.targets[0].id

            def bound(t, kd):
                v = self.fresh(x)
                return "let %s := %s in\n  %s" % (v, t, self.block(rest, dict(env, **{x: (v, kd)}), ret))
            return self.expr(s.value, env, bound)
        if isinstance(s, ast.If) and not s.orelse and len(s.body) == 1 and isinstance(s.body[0], ast.Assign) \
                and len(s.body[0].targets) == 1 and isinstance(s.body[0].targets[0], ast.Name):
            # `if c: x = e` -- x may change kind in one branch only: the continuation is translated once per branch
            def branch(c, kd):
                self.need(kd, "BOOL", s.test)
                a = self.block([s.body[0]] + rest, env, ret)
                b = self.block(rest, env, ret)
                return "if %s\n  then (%s)\n  else (%s)" % (c, a, b)
            return self.expr(s.test, env, branch)
        if isinstance(s, ast.For):
            return self.for_items(s, rest, env, ret)
        return self.other_stmt(s, rest, env, ret)

    def other_stmt(self, s, rest, env, ret):
        raise Reject("%s: statement not understood: %s" % (_where(s), _src(s).splitlines()[0]))

    def for_items(self, s, rest, env, ret):
        t, it = s.target, s.iter
        ok = (not s.orelse and isinstance(t, ast.Tuple) and len(t.elts) == 2 and all(isinstance(x, ast.Name) for x in t.elts)
              and isinstance(it, ast.Call) and isinstance(it.func, ast.Attribute) and it.func.attr == "items" and not it.args and not it.keywords
              and isinstance(it.func.value, ast.Name))
        if not ok:
            raise Reject("%s: only `for n, s in d.items():` is understood" % _where(s))
        d = it.func.value.id
        if d not in env or env[d][1] != "OUTDICT":
            raise Reject("%s: loop over the items of %r" % (_where(s), d))
        kn, sn = t.elts[0].id, t.elts[1].id
        dv, kv, sv = self.fresh(d), self.fresh(kn), self.fresh(sn)

        def body(stmts, cur):
            if not stmts:
                return "Ok %s" % cur
            b, more = stmts[0], stmts[1:]
            benv = dict(env, **{d: (cur, "OUTDICT"), kn: (kv, "KEY"), sn: (sv, "PV")})
            if isinstance(b, ast.If) and not b.orelse:
                def br(c, kd):
                    self.need(kd, "BOOL", b.test)
                    nxt = self.fresh(d)
                    first = "if %s then (%s) else Ok %s" % (c, body(b.body, cur), cur)
                    return first if not more else "bind (%s) (fun %s => %s)" % (first, nxt, body(more, nxt))
                return self.expr(b.test, benv, br)
            if isinstance(b, ast.Assign) and len(b.targets) == 1 and isinstance(b.targets[0], ast.Subscript) \
                    and isinstance(b.targets[0].value, ast.Name) and b.targets[0].value.id == d \
                    and isinstance(b.targets[0].slice, ast.Name) and b.targets[0].slice.id == kn:
                def st(tv, kd):
                    nxt = self.fresh(d)
                    return "let %s := dict_set %s %s %s in %s" % (nxt, cur, kv, self.box(tv, kd, b), body(more, nxt))
                return self.expr(b.value, benv, st)
            raise Reject("%s: in a loop over d.items() the only write understood is d[<visited key>] = e: %s" % (_where(b), _src(b).splitlines()[0]))
        for node in ast.walk(ast.Module(body=s.body, type_ignores=[])):
            if isinstance(node, ast.Name) and isinstance(node.ctx, (ast.Store, ast.Del)):
                raise Reject("%s: assignment to a local inside the loop" % _where(node))
        lam = "fun %s %s %s => %s" % (dv, kv, sv, body(list(s.body), dv))
        return self.bindk("for_items %s (%s) %s" % (env[d][0], lam, env[d][0]), "OUTDICT",
                          lambda v, kd: self.block(rest, dict(env, **{d: (v, kd)}), ret), d)


# ---------------------------------------------------------------------------------------------- _sort_and_unpack
def _find(tree, name, cls=None):
    body = tree.body
    if cls is not None:
        cs = [n for n in body if isinstance(n, ast.ClassDef) and n.name == cls]
        if len(cs) != 1:
            raise Reject("%s: class %s not found exactly once" % (_E, cls))
        body = cs[0].body
    fs = [n for n in body if isinstance(n, ast.FunctionDef) and n.name == name]
    if len(fs) != 1:
        raise Reject("%s: function %s not found exactly once" % (_E, name))
    if fs[0].decorator_list:
        raise Reject("%s: decorated %s" % (_where(fs[0]), name))
    return fs[0]


def _strip_doc(body):
    if body and isinstance(body[0], ast.Expr) and isinstance(body[0].value, ast.Constant) and isinstance(body[0].value.value, str):
        return body[1:]
    return body


def _plain_params(fn, defaults_ok=()):
    a = fn.args
    if a.vararg or a.kwarg or a.kwonlyargs or a.posonlyargs:
        raise Reject("%s: parameter list of %s" % (_where(fn), fn.name))
    names = [x.arg for x in a.args]
    nd = len(a.defaults)
    for nm, dflt in zip(names[len(names) - nd:], a.defaults):
        if not (isinstance(dflt, ast.Constant) and (dflt.value is None or type(dflt.value) in (int, bool))):
            raise Reject("%s: default of %s" % (_where(fn), nm))
    return names


def tr_sort_and_unpack(tree):
    fn = _find(tree, "_sort_and_unpack")
    if _plain_params(fn) != ["states", "return_states"]:
        raise Reject("%s: parameters of _sort_and_unpack" % _where(fn))
    tr = Tr()
    env = {"states": ("states", "RESULTS"), "return_states": ("return_states", "OPT")}

    def ret(t, kd, _env):
        if kd == "OUTDICT":
            return "Ok (UDict %s)" % t
        if kd == "PV":
            return "Ok (UVal %s)" % t
        raise Reject("%s: _sort_and_unpack returns a %s" % (_where(fn), kd))
    body = tr.block(_strip_doc(fn.body), env, ret)
    return ("Definition sort_and_unpack_ {V L RS : Type} (states : list (nat * pdict V * L)) (return_states : option RS) : res (unpacked V) :=\n  %s.\n" % body), fn


# ---------------------------------------------------------------------------------------------- _run_fn: the returned triple
def tr_run_fn(tree):
    fn = _find(tree, "_run_fn")
    params = _plain_params(fn)
    if "idx" not in params:
        raise Reject("%s: _run_fn has no parameter idx" % _where(fn))
    body = _strip_doc(fn.body)
    last = body[-1] if body else None
    if not (isinstance(last, ast.Return) and isinstance(last.value, ast.Tuple) and len(last.value.elts) == 3
            and isinstance(last.value.elts[0], ast.Name) and last.value.elts[0].id == "idx"):
        raise Reject("%s: _run_fn does not end with `return idx, <states>, <last states>`" % _where(last or fn))
    for node in ast.walk(ast.Module(body=body, type_ignores=[])):
        if isinstance(node, ast.Name) and node.id == "idx" and node is not last.value.elts[0]:
            raise Reject("%s: idx is used or rebound inside _run_fn (the index handed back must be the one received, and the rest of "
                         "the body is modelled as independent of it)" % _where(node))
        if isinstance(node, ast.arg) and node.arg == "idx":
            raise Reject("%s: idx rebound by a nested function" % _where(node))
        if isinstance(node, ast.Return) and node is not last:
            raise Reject("%s: second return in _run_fn" % _where(node))
        if isinstance(node, (ast.Yield, ast.YieldFrom, ast.Global, ast.Nonlocal)) or (isinstance(node, ast.Name) and node.id in ("locals", "globals", "vars", "eval", "exec")):
            raise Reject("%s: construct not understood in _run_fn" % _where(node))
    others = [p for p in params if p != "idx"]
    tys = " ".join("T_%s" % p for p in others)
    fty = " -> ".join("T_%s" % p for p in others)
    binders = " ".join("(%s : %s)" % (p, "nat" if p == "idx" else "T_%s" % p) for p in params)
    text = ("Definition run_fn_ {%s V L : Type}\n  (body_states : %s -> pdict V) (body_last : %s -> L)\n  %s : nat * pdict V * L :=\n"
            "  (idx, body_states %s, body_last %s).\n" % (tys, fty, fty, binders, " ".join(others), " ".join(others)))
    return text, fn, params


# ---------------------------------------------------------------------------------------------- ESN.run / ESN.fit
PIN_RUN = {
    "X, forced_feedbacks = to_data_mapping(self, X, forced_feedbacks)": "input",
    "self._initialize_on_sequence(X[0], forced_feedbacks[0])": "skip",
    "backend = get_joblib_backend(workers=self.workers, backend=self.backend)": "backend",
    "seq = progress(X, f'Running {self.name}')": "seq",
}
PIN_FIT = {
    "X, Y = to_data_mapping(self, X, Y)": "input",
    "self._initialize_on_sequence(X[0], Y[0])": "skip",
    "backend = get_joblib_backend(workers=self.workers, backend=self.backend)": "backend",
    "seq = progress(X, f'Running {self.name}')": "seq",
}
WITH_STATE = "self.with_state(from_state, reset=reset, stateful=stateful)"
PARALLEL = "Parallel(n_jobs=self.workers, backend=backend)"


def _pattern(t):
    if isinstance(t, ast.Name):
        return t.id, [t.id]
    if isinstance(t, ast.Tuple):
        parts = [_pattern(x) for x in t.elts]
        return "(%s)" % ", ".join(p for p, _ in parts), [n for _, ns in parts for n in ns]
    raise Reject("%s: loop target" % _where(t))


def _gen_tasks(call, env, fname, fparams):
    """parallel(delayed(f)(a1, ..., an) for pat in [enumerate(]zip(A, B)[)]) -> (tuple pattern of the task, map term building the tasks)"""
    if not (isinstance(call, ast.Call) and isinstance(call.func, ast.Name) and call.func.id == "parallel" and len(call.args) == 1
            and not call.keywords and isinstance(call.args[0], ast.GeneratorExp)):
        raise Reject("%s: parallel(<generator expression>) expected" % _where(call))
    ge = call.args[0]
    if len(ge.generators) != 1 or ge.generators[0].ifs or ge.generators[0].is_async:
        raise Reject("%s: generator shape" % _where(ge))
    g, elt = ge.generators[0], ge.elt
    if not (isinstance(elt, ast.Call) and not elt.keywords and isinstance(elt.func, ast.Call) and isinstance(elt.func.func, ast.Name)
            and elt.func.func.id == "delayed" and len(elt.func.args) == 1 and not elt.func.keywords
            and isinstance(elt.func.args[0], ast.Name) and elt.func.args[0].id == fname):
        raise Reject("%s: delayed(%s)(...) expected: %s" % (_where(elt), fname, _src(elt)))
    if not all(isinstance(a, ast.Name) for a in elt.args) or len(elt.args) != len(fparams):
        raise Reject("%s: %s takes %d positional names" % (_where(elt), fname, len(fparams)))
    pat, bound = _pattern(g.target)
    if len(set(bound)) != len(bound):
        raise Reject("%s: loop target" % _where(g.target))

    def iter_term(it):
        if isinstance(it, ast.Call) and isinstance(it.func, ast.Name) and not it.keywords:
            if it.func.id == "enumerate" and len(it.args) == 1:
                t, shape = iter_term(it.args[0])
                return "(py_enumerate %s)" % t, ("pair", "NAT", shape)
            if it.func.id == "zip" and len(it.args) == 2 and all(isinstance(a, ast.Name) for a in it.args):
                ts = []
                for a in it.args:
                    if a.id not in env or env[a.id][1] != "SEQLIST":
                        raise Reject("%s: zip over %r, which is not one of the sequence lists" % (_where(a), a.id))
                    ts.append(env[a.id][0])
                return "(py_zip %s %s)" % tuple(ts), ("pair", "ELT", "ELT")
        raise Reject("%s: iteration over %s not understood" % (_where(it), _src(it)))
    it, shape = iter_term(g.iter)

    def kinds(t, sh, out):
        if isinstance(t, ast.Name):
            if sh in ("NAT", "ELT"):
                out[t.id] = sh
                return
            raise Reject("%s: a pair is bound to one name" % _where(t))
        if isinstance(t, ast.Tuple) and isinstance(sh, tuple) and len(t.elts) == 2:
            kinds(t.elts[0], sh[1], out)
            kinds(t.elts[1], sh[2], out)
            return
        raise Reject("%s: loop target does not match what is iterated" % _where(t))
    lk = {}
    kinds(g.target, shape, lk)
    args = []
    for a, p in zip(elt.args, fparams):
        if a.id in lk:
            if (p == "idx") != (lk[a.id] == "NAT"):
                raise Reject("%s: argument %s of %s receives %s" % (_where(a), p, fname, a.id))
            args.append(a.id)
        elif a.id in env and env[a.id][1] not in ("SEQLIST",):
            if p == "idx":
                raise Reject("%s: idx receives %s" % (_where(a), a.id))
            args.append(env[a.id][0])
        else:
            raise Reject("%s: argument %r of the task" % (_where(a), a.id))
    tup = "(%s)" % ", ".join(args)
    return "(map (fun '%s => %s) %s)" % (pat, tup, it), [a.id for a in elt.args]


def _parallel_with(s, env, fname, fparams):
    if not (isinstance(s, ast.With) and len(s.items) == 1 and _src(s.items[0].context_expr) == PARALLEL
            and isinstance(s.items[0].optional_vars, ast.Name) and s.items[0].optional_vars.id == "parallel"
            and len(s.body) == 1 and isinstance(s.body[0], ast.Assign) and len(s.body[0].targets) == 1
            and isinstance(s.body[0].targets[0], ast.Name)):
        raise Reject("%s: `with %s as parallel: v = parallel(...)` expected" % (_where(s), PARALLEL))
    if "backend" not in env:
        raise Reject("%s: backend not bound" % _where(s))
    tasks, _ = _gen_tasks(s.body[0].value, env, fname, fparams)
    return s.body[0].targets[0].id, tasks


class RunTr(Tr):
    """ESN.run"""

    def __init__(self, run_params):
        Tr.__init__(self)
        self.run_params = run_params
        self.writes = {}

    def other_stmt(self, s, rest, env, ret):
        src = _src(s)
        if isinstance(s, ast.With) and len(s.items) == 1 and s.items[0].optional_vars is None and _src(s.items[0].context_expr) == WITH_STATE:
            return self.block(list(s.body) + rest, env, ret)      # entered; nothing is bound (the restore on exit is outside this model)
        if isinstance(s, ast.With):
            v, tasks = _parallel_with(s, env, "_run_fn", self.run_params)
            nv = self.fresh(v)
            ps = ", ".join("a%d" % i for i in range(len(self.run_params)))
            f = "(fun '(%s) => run_fn_ body_states body_last %s)" % (ps, ps.replace(",", ""))
            return "let %s := parallel order %s %s in\n  %s" % (nv, f, tasks, self.block(rest, dict(env, **{v: (nv, "RESULTS")}), ret))
        if isinstance(s, ast.Assign) and len(s.targets) == 1 and isinstance(s.targets[0], ast.Tuple) and len(s.targets[0].elts) == 2 \
                and all(isinstance(x, ast.Name) for x in s.targets[0].elts) and src not in PIN_RUN:
            a, b = [x.id for x in s.targets[0].elts]

            def bound(t, kd):
                self.need(kd, "LAST", s.value)
                va, vb = self.fresh(a), self.fresh(b)
                return "let '(%s, %s) := %s in\n  %s" % (va, vb, t, self.block(rest, dict(env, **{a: (va, "L1"), b: (vb, "L2")}), ret))
            return self.expr(s.value, env, bound)
        if isinstance(s, ast.Assign) and len(s.targets) == 1 and _src(s.targets[0]) in ("self.reservoir._state", "self.readout._state") \
                and isinstance(s.value, ast.Name):
            which = _src(s.targets[0]).split(".")[1]
            t, kd = self.pure(s.value, env)
            self.need(kd, {"reservoir": "L1", "readout": "L2"}[which], s.value)
            if which in env.get("@writes", {}):
                raise Reject("%s: second write of %s" % (_where(s), _src(s.targets[0])))
            return self.block(rest, dict(env, **{"@writes": dict(env.get("@writes", {}), **{which: t})}), ret)
        raise Reject("%s: statement not understood: %s" % (_where(s), src.splitlines()[0]))


def tr_run(tree, run_params):
    fn = _find(tree, "run", "ESN")
    params = _plain_params(fn)
    want = ["self", "X", "forced_feedbacks", "from_state", "stateful", "reset", "shift_fb", "return_states"]
    if params != want:
        raise Reject("%s: parameters of ESN.run: %s" % (_where(fn), params))
    body = _strip_doc(fn.body)
    env = {"self": ("self", "SELF"), "X": ("X", "RAW"), "forced_feedbacks": ("forced_feedbacks", "RAW")}
    for p in ("from_state", "stateful", "reset", "shift_fb"):
        env[p] = (p, "ARG")
    env["return_states"] = ("return_states", "OPT")
    seen, i = [], 0
    while i < len(body) and _src(body[i]) in PIN_RUN:
        role = PIN_RUN[_src(body[i])]
        seen.append(role)
        if role == "input":
            env["X"], env["forced_feedbacks"] = ("X", "SEQLIST"), ("forced_feedbacks", "SEQLIST")
        elif role == "backend":
            env["backend"] = ("backend", "OPAQUE")
        elif role == "seq":
            if env["X"][1] != "SEQLIST":
                raise Reject("%s: progress before to_data_mapping" % _where(body[i]))
            env["seq"] = ("X", "SEQLIST")
        i += 1
    if seen != ["input", "skip", "backend", "seq"]:
        raise Reject("%s: the statements before the dispatch of ESN.run are not the pinned ones, in order (found roles %s; first other statement: %s)"
                     % (_where(body[i]) if i < len(body) else _where(fn), seen, _src(body[i]).splitlines()[0] if i < len(body) else "<none>"))
    tr = RunTr(run_params)

    def ret(t, kd, env2):
        if kd != "UNPACKED":
            raise Reject("%s: ESN.run returns a %s" % (_where(fn), kd))
        w = env2.get("@writes", {})
        if set(w) != {"reservoir", "readout"}:
            raise Reject("%s: the state carry-over (self.reservoir._state, self.readout._state) was not found on this path" % _where(fn))
        return "Ok (%s, %s, %s)" % (w["reservoir"], w["readout"], t)
    term = tr.block(body[i:], env, ret)
    others = [p for p in run_params if p != "idx"]
    amap = {"esn": "self", "x": "x", "forced_fb": "forced_fb"}
    text = ("Definition ESN_run {T_esn T_x T_forced_fb RS T_from_state T_stateful T_reset T_shift_fb V L1 L2 : Type}\n"
            "  (body_states : T_esn -> T_x -> T_forced_fb -> option RS -> T_from_state -> T_stateful -> T_reset -> T_shift_fb -> pdict V)\n"
            "  (body_last : T_esn -> T_x -> T_forced_fb -> option RS -> T_from_state -> T_stateful -> T_reset -> T_shift_fb -> L1 * L2)\n"
            "  (order : list nat)\n"
            "  (self : T_esn) (X : list T_x) (forced_feedbacks : list T_forced_fb) (from_state : T_from_state) (stateful : T_stateful)\n"
            "  (reset : T_reset) (shift_fb : T_shift_fb) (return_states : option RS) : res (L1 * L2 * unpacked V) :=\n  %s.\n" % term)
    if others != ["esn", "x", "forced_fb", "return_states", "from_state", "stateful", "reset", "shift_fb"]:
        raise Reject("%s: parameters of _run_fn: %s" % (_E, run_params))
    return text, fn


# ---- ESN.fit
class FitTr(Tr):
    pass


def tr_fit(tree):
    pf = _find(tree, "_run_partial_fit_fn")
    pparams = _plain_params(pf)
    if pparams != ["esn", "x", "y", "lock", "warmup"]:
        raise Reject("%s: parameters of _run_partial_fit_fn: %s" % (_where(pf), pparams))
    fn = _find(tree, "fit", "ESN")
    if _plain_params(fn) != ["self", "X", "Y", "warmup", "from_state", "stateful", "reset"]:
        raise Reject("%s: parameters of ESN.fit" % _where(fn))
    body = _strip_doc(fn.body)
    tr = FitTr()
    env = {"self": ("self", "SELF"), "warmup": ("warmup", "ARG")}
    # prefix: pinned statements, self.initialize_buffers(), the lock rule
    roles, i, lock_rule = [], 0, None
    while i < len(body):
        s, src = body[i], _src(body[i])
        if src in PIN_FIT:
            role = PIN_FIT[src]
            if role == "input":
                env["X"], env["Y"] = ("X", "SEQLIST"), ("Y", "SEQLIST")
            elif role == "backend":
                env["backend"] = ("backend", "OPAQUE")
            elif role == "seq":
                if "X" not in env:
                    raise Reject("%s: progress before to_data_mapping" % _where(s))
                env["seq"] = ("X", "SEQLIST")
        elif src == "self.initialize_buffers()":
            role = "init_buffers"
        elif isinstance(s, ast.If) and len(s.body) == 1 and len(s.orelse) == 1 and _src(s.body[0]) == "lock = Manager().Lock()" \
                and _src(s.orelse[0]) == "lock = None":
            role = "lock"
            cenv = {"@workers": ("workers", "Z"), "@backend": ("backend_attr", "BACKEND")}

            class Sub(ast.NodeTransformer):
                def visit_Attribute(self, node):
                    if _src(node) == "self.workers":
                        return ast.copy_location(ast.Name(id="@workers", ctx=ast.Load()), node)
                    if _src(node) == "self.backend":
                        return ast.copy_location(ast.Name(id="@backend", ctx=ast.Load()), node)
                    raise Reject("%s: attribute %s in the lock rule" % (_where(node), _src(node)))
            import copy
            c, kd = tr.pure(Sub().visit(copy.deepcopy(s.test)), cenv)
            tr.need(kd, "BOOL", s.test)
            lock_rule = c
            env["lock"] = ("(if ESN_fit_use_lock workers backend_attr then Some new_lock else None)", "ARG")
        else:
            break
        roles.append(role)
        i += 1
    if roles != ["input", "skip", "init_buffers", "lock", "backend", "seq"]:
        raise Reject("%s: the statements before the dispatch of ESN.fit are not the expected ones, in order (found %s; first other statement: %s)"
                     % (_where(body[i]) if i < len(body) else _where(fn), roles, _src(body[i]).splitlines()[0] if i < len(body) else "<none>"))
    rest = body[i:]
    if not (len(rest) == 2 and isinstance(rest[0], ast.With) and len(rest[0].items) == 1 and rest[0].items[0].optional_vars is None
            and _src(rest[0].items[0].context_expr) == WITH_STATE and _src(rest[1]) == "return self"):
        raise Reject("%s: `with %s: ...; return self` expected" % (_where(rest[0]) if rest else _where(fn), WITH_STATE))
    inner = list(rest[0].body)
    if not inner or not isinstance(inner[0], ast.Try):
        raise Reject("%s: try statement expected" % _where(rest[0]))
    t = inner[0]
    h = t.handlers
    if t.orelse or t.finalbody or len(h) != 1 or h[0].name is not None or h[0].type is None or _src(h[0].type) != "Exception" \
            or [_src(x) for x in h[0].body] != ["self.readout.clean_buffers()", "raise"] or len(t.body) != 1:
        raise Reject("%s: `try: <dispatch> except Exception: self.readout.clean_buffers(); raise` expected" % _where(t))
    v, tasks = _parallel_with(t.body[0], env, "_run_partial_fit_fn", pparams)
    after = inner[1:]
    if after and isinstance(after[0], ast.If) and _src(after[0].test) == "verbosity()" and not after[0].orelse \
            and all(isinstance(x, ast.Expr) and isinstance(x.value, ast.Call) and _src(x.value.func) == "print" for x in after[0].body):
        after = after[1:]
    if [_src(x) for x in after] != ["self.reservoir._state = np.atleast_2d(%s[-1])" % v, "self.readout.fit()"]:
        raise Reject("%s: after the dispatch, `self.reservoir._state = np.atleast_2d(%s[-1]); self.readout.fit()` expected, found: %s"
                     % (_where(after[0]) if after else _where(t), v, [_src(x).splitlines()[0] for x in after]))
    hdr = "{T_esn T_x T_y LK T_warmup : Type}"
    text = ("Definition ESN_fit_use_lock (workers : Z) (backend_attr : option String.string) : bool :=\n  %s.\n\n" % lock_rule)
    text += ("Definition ESN_fit_tasks %s (new_lock : LK) (self : T_esn) (X : list T_x) (Y : list T_y) (warmup : T_warmup)\n"
             "  (workers : Z) (backend_attr : option String.string) : list (T_esn * T_x * T_y * option LK * T_warmup) :=\n  %s.\n\n" % (hdr, tasks))
    text += ("(* world-passing reading of the whole method: initialize_buffers, the tasks run (in the order [order]) on the shared world, a failure\n"
             "   cleans the buffers and is re-raised, otherwise the reservoir state is set from the LAST element of the result list and the readout is fitted *)\n"
             "Definition ESN_fit {W LS : Type} %s\n"
             "  (partial_fit_fn : T_esn * T_x * T_y * option LK * T_warmup -> W -> W * res LS)\n"
             "  (initialize_buffers clean_buffers readout_fit : W -> W) (set_reservoir_state : LS -> W -> W)\n"
             "  (order : list nat) (new_lock : LK) (self : T_esn) (X : list T_x) (Y : list T_y) (warmup : T_warmup)\n"
             "  (workers : Z) (backend_attr : option String.string) (w : W) : W * res unit :=\n"
             "  let w1 := initialize_buffers w in\n"
             "  match try_reraise (parallel_w order partial_fit_fn (ESN_fit_tasks new_lock self X Y warmup workers backend_attr)) clean_buffers w1 with\n"
             "  | (w2, Raise e) => (w2, Raise e)\n"
             "  | (w2, Ok %s) =>\n"
             "      match list_last %s with\n"
             "      | Raise e => (w2, Raise e)\n"
             "      | Ok ls => (readout_fit (set_reservoir_state ls w2), Ok tt)\n"
             "      end\n"
             "  end.\n" % (hdr, v, v))
    return text, fn, pf


# ---------------------------------------------------------------------------------------------- driver
def emit(repo):
    path = os.path.join(repo, _E)
    src = open(path).read()
    tree = ast.parse(src)
    for node in tree.body:       # the names the translation relies on must be the module-level ones
        if isinstance(node, (ast.FunctionDef, ast.ClassDef)) and node.name in ("sorted", "len", "enumerate", "zip", "delayed", "Parallel", "parallel"):
            raise Reject("%s: %s is redefined in the module" % (_where(node), node.name))
    imp = [n for n in tree.body if isinstance(n, ast.ImportFrom) and n.module == "joblib"]
    if not any({a.name for a in n.names} >= {"Parallel", "delayed"} and all(a.asname is None for a in n.names) for n in imp):
        raise Reject("%s: `from joblib import Parallel, delayed` not found" % _E)
    su, su_fn = tr_sort_and_unpack(tree)
    rf, rf_fn, rparams = tr_run_fn(tree)
    rn, rn_fn = tr_run(tree, rparams)
    ft, ft_fn, pf_fn = tr_fit(tree)

    def sha(fn):
        return hashlib.sha256(ast.get_source_segment(src, fn).encode()).hexdigest()
    head = ("(* GENERATED by tools/vlib/py2coq_par.py (%s) -- do not edit.\n   source: %s\n" % (VERSION, _E)
            + "".join("   sha256 %-22s %s\n" % (n, sha(f)) for n, f in (("_sort_and_unpack", su_fn), ("_run_fn", rf_fn), ("ESN.run", rn_fn),
                                                                       ("_run_partial_fit_fn", pf_fn), ("ESN.fit", ft_fn)))
            + "   vocabulary: coq/base/ParPrelude.v *)\n"
            "From Coq Require Import List Arith Bool ZArith.\nFrom Coq Require String.\nFrom RV Require Import base.ParPrelude.\nImport ListNotations.\nImport String.StringSyntax.\nDelimit Scope string_scope with string.\n"
            "Open Scope bool_scope.\n\nModule GenPar.\n\n")
    return head + su + "\n" + rf + "\n" + rn + "\n" + ft + "\nEnd GenPar.\n"


if __name__ == "__main__":
    import sys
    sys.stdout.write(emit(sys.argv[1] if len(sys.argv) > 1 else "/repo"))
