"""Fail-closed translator for the graph-building functions of reservoirpy/ops.py -> Gallina (tie T of C03, second unit).

Targets (FUNCS, in emission order): concat_multi_inputs, _link_1to1, merge; then link (v3: class LinkFn below, whose docstring lists
its fragment; _check_all_nodes pinned by its exact text).   (Model.__init__ / update_graph: tie H only.)
It REUSES tools/vlib/py2coq_graph.py (kinds, ownership tracking, defaultdict reads with their insert side effect, loops,
set -> sequence sites) by subclassing its `Fn` / `Translator`; py2coq_graph.py is not modified.  The callee
`find_parents_and_children` is NOT re-translated here: ops.py must import it from .utils.graphflow (checked), its signature
is taken from a run of py2coq_graph over the graphflow.py of the same tree, and the generated file refers to
coq/gen/Gen_graphflow.v (regenerated on the same run).

Added to the accepted fragment (everything else: docstring of py2coq_graph.py; anything not listed in either is REJECTED):
  `set()`                                       empty set; its element kind is fixed by the first `|=` (also inside a branch / loop)
  `{a, b}`                                      set display = `py_set [a; b]`
  `s |= <set>`                                  on a set this function owns: `set_union s <set>`
  `set(<list expr>)`, `[.. for p in d[k]]`, `l + m` whose LEFT operand reads a defaultdict: the insert-if-missing side effect
                                                of the read is emitted before the expression (Python evaluates it first)
  `Concat()`                                    only inside `for x in <nodes>` (x a single name): the new object is
                                                `new_concat k x` (k: allocation site), new_concat a Section variable -- the
                                                identity supply.  EXACT only when the iterated nodes are pairwise distinct (two
                                                iterations for the same node would allocate two objects).
  `type(x) not in _MULTI_INPUTS_OPS` / `in`     `negb (isc x)` / `isc x`, with `_MULTI_INPUTS_OPS = (Concat,)` and
                                                `from .nodes.concat import Concat` pinned at module level; isc = "type(x) is Concat"
  `r = {}` ... `r.update({p.name: c for p in d[k]})`   a WRITE-ONLY registry: accepted only when every occurrence of r in the
                                                function is `r = {}` or the receiver of such an `.update`; r is `tt`, the update
                                                contributes only the defaultdict read side effect of its iterable
For _link_1to1 (an operand -- Node or Model -- is a `node`: the identity of the Python object):
  `isinstance(x, Model)` / `isinstance(x, FrozenModel)`   `is_model x` / `is_frozen_model x` (Section variables; Model, FrozenModel
                                                imported from .model, pinned)
  `x.nodes` `x.edges` `x.input_nodes` `x.output_nodes`    `attr_nodes x` ... (Section variables: the property reads, assumed pure);
  `x.is_initialized` (bool), `x.output_dim` / `x.input_dim` (opaque kind dim, only `==` / `!=`: `dim_eqb`)
  `for x in (a, b):` over a display of names   loop over `[a; b]`; the loop variable LEAKS: after the loop it is bound to the last
                                                element (`let x := b`), as in Python (a display is never empty, there is no break)
  `l += <list expr>`                            on a list this function owns: `l ++ <expr>` (in-place extend copies the elements)
  `list(product(a, b))`                         `list_prod a b` (product imported from itertools, pinned)
  `for .. in l: if c: raise E(...)`             `py_for l (fun _ x => if c then Exc E else Val tt) tt` (the message is not modelled)
For merge (vocabulary coq/base/PyColl4.v; the signature text `%s` is pinned):
  `*models`                                     `models : list operand`; an operand is an object or a list / tuple of objects
  `if isinstance(x, (list, tuple)): l.extend(x)` / `else: l.append(x)`   ONE unit, x an operand, l an owned list: `l ++ opnd_flat x`
  `isinstance(x, _Node)`                        `is_node x` (Section variable; _Node imported from ._base, pinned)
  `raise TypeError(...)`                        the function is then emitted over `py4` (Val4 / Exc4 TypeError / Exc4 (Py e), py4_bind,
                                                py4_for) instead of `py`; also as the LAST branch of an if inside a loop
  `<str constant>`                              `tt` of kind str, which no other construct accepts (messages are not modelled)
  `return x.update_graph(s, t)`                 `MUpdate x s t` (x an object, s / t sets of nodes / edges): the call is NOT translated
  `return Model(nodes=<list>, edges=<list>, name=name)`   `MNew <list> <list>`: the constructor is NOT translated; `name` must be the
                                                parameter of that name, which may occur nowhere else
""" % "model: _Node, *models: _Node, inplace: bool=False, name: str=None"
import ast
import hashlib
import os
import re

from vlib import py2coq_graph as g
from vlib.py2coq_graph import Reject, NODE, EDGE, NAT, BOOL, DD, L, C, SET, T, where

VERSION = "py2coq_ops 3"
SOURCE = "reservoirpy/ops.py"
DEAD = ("deaddict",)
DIM = ("dim",)
OPND, NAME, STR, MRES = ("operand",), ("pyname",), ("str",), ("mres",)
MERGE_SIG = "model: _Node, *models: _Node, inplace: bool=False, name: str=None"
FUNCS = [
    ("concat_multi_inputs", [("nodes", C(NODE)), ("edges", C(EDGE))]),
    ("_link_1to1", [("node1", NODE), ("node2", NODE)]),
    ("merge", [("model", NODE), ("models", L(OPND)), ("inplace", BOOL), ("name", NAME)]),
]
IMPORTED = {"find_parents_and_children": ".utils.graphflow", "Concat": ".nodes.concat", "Model": ".model", "FrozenModel": ".model",
            "product": "itertools", "_Node": "._base", "Sequence": "typing", "Iterable": "typing"}
ATTRS = {"nodes": ("attr_nodes", L(NODE)), "edges": ("attr_edges", L(EDGE)), "input_nodes": ("attr_input_nodes", L(NODE)),
         "output_nodes": ("attr_output_nodes", L(NODE)), "is_initialized": ("is_initialized", BOOL),
         "output_dim": ("output_dim", DIM), "input_dim": ("input_dim", DIM)}
CLASSES = {"Model": "is_model", "FrozenModel": "is_frozen_model", "_Node": "is_node"}
PINNED_ASSIGN = {"_MULTI_INPUTS_OPS": "(Concat,)"}
RESERVED2 = g.RESERVED | set("""new_concat isc GenGraphflow tt unit is_model is_frozen_model attr_nodes attr_edges attr_input_nodes
attr_output_nodes is_initialized output_dim input_dim dim dim_eqb list_prod is_node operand opnd_flat ONode OSeq mres MNew MUpdate
py4 Val4 Exc4 py4_bind py4_for TypeError Py pyexc4""".split())


def coqtype(k):
    if k == DEAD:
        return "unit"
    if k == DIM:
        return "dim"
    if k == OPND:
        return "operand"
    if k == NAME:
        return "unit"
    if k == L(OPND):
        return "list operand"
    return g.coqtype(k)


class OFn(g.Fn):
    def name_ok(self, s, n):
        if s in RESERVED2 or s.startswith("ord_") or s in self.tr.done:
            raise Reject("%s: variable name %r clashes with the generated vocabulary" % (where(n), s))
        return s

    # ------------------------------------------------------------------ expressions
    def expr(self, e, env):
        if isinstance(e, ast.Constant) and isinstance(e.value, str):
            return [], "tt", STR, False
        if isinstance(e, ast.Set):
            parts = [self.expr(x, env) for x in e.elts]
            if not parts or any(p[0] for p in parts):
                raise Reject("%s: set display" % where(e))
            k = parts[0][2]
            if any(p[2] != k for p in parts) or k not in (NODE, EDGE):
                raise Reject("%s: set display of mixed / unsupported elements" % where(e))
            return [], "(py_set [" + "; ".join(p[1] for p in parts) + "])", SET(k), True
        if isinstance(e, ast.Attribute) and isinstance(e.value, ast.Name) and e.attr in ATTRS and isinstance(e.ctx, ast.Load):
            pa, a, ka, _ = self.expr(e.value, env)
            if pa or ka != NODE:
                raise Reject("%s: attribute .%s of a value of kind %r" % (where(e), e.attr, ka))
            return [], "(%s %s)" % (ATTRS[e.attr][0], a), ATTRS[e.attr][1], False
        if isinstance(e, ast.Compare) and len(e.ops) == 1 and isinstance(e.ops[0], (ast.Eq, ast.NotEq)):
            pa, a, ka, _ = self.expr(e.left, env)
            if ka == DIM:
                pb, b, kb, _ = self.expr(e.comparators[0], env)
                if pa or pb or kb != DIM:
                    raise Reject("%s: comparison of a dimension with kind %r" % (where(e), kb))
                t = "(dim_eqb %s %s)" % (a, b)
                return [], t if isinstance(e.ops[0], ast.Eq) else "(negb %s)" % t, BOOL, False
        if isinstance(e, ast.Call) and isinstance(e.func, ast.Name) and e.func.id == "isinstance" and "isinstance" not in env:
            if e.keywords or len(e.args) != 2 or not isinstance(e.args[1], ast.Name) or e.args[1].id not in CLASSES \
                    or e.args[1].id in env:
                raise Reject("%s: isinstance is understood only against Model / FrozenModel" % where(e))
            pa, a, ka, _ = self.expr(e.args[0], env)
            if pa or ka != NODE:
                raise Reject("%s: isinstance of a value of kind %r" % (where(e), ka))
            if e.args[1].id == "_Node" and not self.py4:
                raise Reject("%s: isinstance(.., _Node) is understood only in merge" % where(e))
            return [], "(%s %s)" % (CLASSES[e.args[1].id], a), BOOL, False
        if isinstance(e, ast.Call) and isinstance(e.func, ast.Name) and e.func.id == "list" and "list" not in env \
                and len(e.args) == 1 and not e.keywords and isinstance(e.args[0], ast.Call) \
                and isinstance(e.args[0].func, ast.Name) and e.args[0].func.id == "product":
            pr = e.args[0]
            if "product" in env or pr.keywords or len(pr.args) != 2:
                raise Reject("%s: product() shape" % where(e))
            pa, a, ka, _ = self.expr(pr.args[0], env)
            pb, b, kb, _ = self.expr(pr.args[1], env)
            if pa or pb or not g.is_seq(ka) or not g.is_seq(kb) or ka[1] != NODE or kb[1] != NODE:
                raise Reject("%s: product() of kinds %r, %r" % (where(e), ka, kb))
            return [], "(list_prod %s %s)" % (a, b), L(EDGE), True
        if isinstance(e, ast.Dict):
            if e.keys:
                raise Reject("%s: dict display" % where(e))
            return [], "tt", DEAD, True
        if isinstance(e, ast.ListComp):
            if len(e.generators) != 1 or e.generators[0].ifs or e.generators[0].is_async:
                raise Reject("%s: comprehension shape" % where(e))
            gen = e.generators[0]
            pi, it, ki, _ = self.expr(gen.iter, env)       # evaluated once, before anything else of the comprehension
            seq = self.as_seq(it, ki, e)
            env2 = dict(env)
            p = self.bind_pattern(gen.target, ki[1], env2)
            pe, el, ke, _ = self.expr(e.elt, env2)
            if pe or ke[0] in g.MUTABLE:
                raise Reject("%s: comprehension element" % where(e))
            return pi, "(map (fun %s => %s) %s)" % (p, el, seq), L(ke), True
        if isinstance(e, ast.BinOp) and isinstance(e.op, ast.Add):
            pa, a, ka, _ = self.expr(e.left, env)
            pb, b, kb, _ = self.expr(e.right, env)
            if pb:
                raise Reject("%s: side effect in the right operand of +" % where(e))
            if ka[0] == "list" and ka == kb:
                return pa, "(%s ++ %s)" % (a, b), ka, True
            raise Reject("%s: + on kinds %r, %r" % (where(e), ka, kb))
        if isinstance(e, ast.Compare) and len(e.ops) == 1 and isinstance(e.ops[0], (ast.In, ast.NotIn)) \
                and isinstance(e.comparators[0], ast.Name) and e.comparators[0].id in PINNED_ASSIGN:
            lhs = e.left
            if not (isinstance(lhs, ast.Call) and isinstance(lhs.func, ast.Name) and lhs.func.id == "type" and len(lhs.args) == 1
                    and not lhs.keywords and isinstance(lhs.args[0], ast.Name) and e.comparators[0].id == "_MULTI_INPUTS_OPS"):
                raise Reject("%s: membership in _MULTI_INPUTS_OPS is understood only for type(<name>)" % where(e))
            if "_MULTI_INPUTS_OPS" in env or "type" in env or "Concat" in env:
                raise Reject("%s: a local name shadows type / Concat / _MULTI_INPUTS_OPS" % where(e))
            pa, a, ka, _ = self.expr(lhs.args[0], env)
            if pa or ka != NODE:
                raise Reject("%s: type() of a value of kind %r" % (where(e), ka))
            t = "(isc %s)" % a
            return [], t if isinstance(e.ops[0], ast.In) else "(negb %s)" % t, BOOL, False
        if isinstance(e, ast.Call) and isinstance(e.func, ast.Name) and e.func.id in ("set", "Concat") and e.func.id not in env:
            if e.keywords:
                raise Reject("%s: keyword arguments" % where(e))
            if e.func.id == "Concat":
                if e.args:
                    raise Reject("%s: Concat(...) with arguments" % where(e))
                if not self.loopvar:
                    raise Reject("%s: Concat() outside a `for <name> in <nodes>` loop (no identity supply)" % where(e))
                self.tr.sites_c += 1
                return [], "(new_concat %d %s)" % (self.tr.sites_c - 1, self.loopvar[-1]), NODE, False
            if not e.args:
                return [], "[]", SET(None), True
            if len(e.args) == 1:
                pa, a, ka, _ = self.expr(e.args[0], env)
                if ka[0] not in ("list", "set", "deque", "coll") or ka[1] is None:
                    raise Reject("%s: set() of kind %r" % (where(e), ka))
                return pa, a if ka[0] == "set" else "(py_set %s)" % a, SET(ka[1]), True
            raise Reject("%s: set() with %d arguments" % (where(e), len(e.args)))
        return super().expr(e, env)

    # ------------------------------------------------------------------ statements
    def dead_ok(self, name, s):
        """every occurrence of the registry `name` is its creation `name = {}` or the receiver of `name.update(...)`"""
        uses = [n for n in ast.walk(self.fdef) if isinstance(n, ast.Name) and n.id == name]
        ok = set()
        for st in ast.walk(self.fdef):
            if isinstance(st, ast.Assign) and len(st.targets) == 1 and isinstance(st.targets[0], ast.Name) \
                    and st.targets[0].id == name and isinstance(st.value, ast.Dict) and not st.value.keys:
                ok.add(id(st.targets[0]))
            if isinstance(st, ast.Expr) and isinstance(st.value, ast.Call) and isinstance(st.value.func, ast.Attribute) \
                    and st.value.func.attr == "update" and isinstance(st.value.func.value, ast.Name) and st.value.func.value.id == name:
                ok.add(id(st.value.func.value))
        if any(id(u) not in ok for u in uses) or name in [p for p, _ in self.params]:
            raise Reject("%s: the dict %r is read (only a write-only registry is understood)" % (where(s), name))

    def block(self, stmts, env, owned, mon, tail):
        if stmts:
            s, rest = stmts[0], stmts[1:]
            if isinstance(s, ast.Assign) and len(s.targets) == 1 and isinstance(s.targets[0], ast.Name) \
                    and isinstance(s.value, ast.Dict):
                self.dead_ok(s.targets[0].id, s)
            # raise TypeError(...) / raise E(...) in a function emitted over py4 (the message is not modelled)
            if isinstance(s, ast.Raise) and self.py4:
                ex = s.exc
                nm = ex.func.id if isinstance(ex, ast.Call) and isinstance(ex.func, ast.Name) else None
                if rest or nm not in (g.EXCS | {"TypeError"}) or s.cause is not None or nm in env or not mon:
                    raise Reject("%s: raise of %r" % (where(s), nm))
                return "Exc %s" % nm
            # if isinstance(x, (list, tuple)): l.extend(x) / else: l.append(x)      (x an operand of `*models`)
            if isinstance(s, ast.If) and isinstance(s.test, ast.Call) and isinstance(s.test.func, ast.Name) \
                    and s.test.func.id == "isinstance" and len(s.test.args) == 2 and isinstance(s.test.args[1], ast.Tuple):
                t = s.test
                x = t.args[0]
                if t.keywords or "isinstance" in env or "list" in env or "tuple" in env or ast.unparse(t.args[1]) != "(list, tuple)" \
                        or not isinstance(x, ast.Name) or env.get(x.id) != OPND:
                    raise Reject("%s: isinstance against a tuple is understood only as isinstance(<operand>, (list, tuple))" % where(s))
                def meth(b, name):
                    if len(b) == 1 and isinstance(b[0], ast.Expr) and isinstance(b[0].value, ast.Call):
                        c = b[0].value
                        if isinstance(c.func, ast.Attribute) and c.func.attr == name and isinstance(c.func.value, ast.Name) \
                                and not c.keywords and len(c.args) == 1 and isinstance(c.args[0], ast.Name) and c.args[0].id == x.id:
                            return c.func.value.id
                    return None
                l1, l2 = meth(s.body, "extend"), meth(s.orelse, "append")
                if l1 is None or l1 != l2:
                    raise Reject("%s: expected `l.extend(x)` / `else: l.append(x)`" % where(s))
                env, owned = dict(env), set(owned)
                kl = env.get(l1)
                if kl not in (L(None), L(NODE)):
                    raise Reject("%s: flattening into %r of kind %r" % (where(s), l1, kl))
                self.need_owned(l1, owned, s, ".extend / .append")
                env[l1] = L(NODE)
                return "let %s := (%s ++ opnd_flat %s) in\n%s" % (l1, l1, x.id, self.block(rest, env, owned, mon, tail))
            # return x.update_graph(s, t)   /   return Model(nodes=.., edges=.., name=name)
            if isinstance(s, ast.Return) and isinstance(s.value, ast.Call) and self.py4 and (
                    (isinstance(s.value.func, ast.Attribute) and s.value.func.attr == "update_graph")
                    or (isinstance(s.value.func, ast.Name) and s.value.func.id == "Model")):
                c = s.value
                if rest or not mon or (tail is not None and getattr(tail, "in_loop", False)) or "Model" in env:
                    raise Reject("%s: return shape" % where(s))
                if isinstance(c.func, ast.Attribute):
                    if c.keywords or len(c.args) != 2 or not isinstance(c.func.value, ast.Name):
                        raise Reject("%s: update_graph call shape" % where(s))
                    parts = [self.expr(c.func.value, env)] + [self.expr(a, env) for a in c.args]
                    if any(p[0] for p in parts) or [p[2] for p in parts] != [NODE, SET(NODE), SET(EDGE)]:
                        raise Reject("%s: update_graph on kinds %r" % (where(s), [p[2] for p in parts]))
                    t = "(MUpdate %s %s %s)" % tuple(p[1] for p in parts)
                else:
                    if c.args or [k.arg for k in c.keywords] != ["nodes", "edges", "name"]:
                        raise Reject("%s: Model(...) is understood only as Model(nodes=.., edges=.., name=name)" % where(s))
                    nv = c.keywords[2].value
                    if not isinstance(nv, ast.Name) or nv.id != "name" or env.get("name") != NAME:
                        raise Reject("%s: Model(..., name=<not the parameter name>)" % where(s))
                    parts = [self.expr(c.keywords[0].value, env), self.expr(c.keywords[1].value, env)]
                    if any(p[0] for p in parts) or [p[2] for p in parts] != [L(NODE), L(EDGE)]:
                        raise Reject("%s: Model(nodes=, edges=) of kinds %r" % (where(s), [p[2] for p in parts]))
                    t = "(MNew %s %s)" % tuple(p[1] for p in parts)
                if getattr(self, "ret", None) not in (None, MRES):
                    raise Reject("%s: return kinds differ: %r / %r" % (where(s), self.ret, MRES))
                self.ret, self.ret_fresh = MRES, [True]
                return self.wrap(mon, t)
            # s |= <set expr>
            if isinstance(s, ast.AugAssign) and isinstance(s.op, ast.BitOr) and isinstance(s.target, ast.Name):
                env, owned = dict(env), set(owned)
                v = s.target.id
                kv = env.get(v)
                if kv is None or kv[0] != "set":
                    raise Reject("%s: `|=` on %r of kind %r" % (where(s), v, kv))
                self.need_owned(v, owned, s, "|=")
                pre, t, kt, _ = self.expr(s.value, env)
                if kt[0] != "set" or kt[1] is None or any(pv == v for pv, _ in pre):
                    raise Reject("%s: `|=` with a value of kind %r" % (where(s), kt))
                if kv[1] is None:
                    kv = kt
                    env[v] = kv
                if kv != kt:
                    raise Reject("%s: `|=` of a %r into a %r" % (where(s), kt, kv))
                return self.pre_lets(pre) + "let %s := set_union %s %s in\n%s" % (v, v, t, self.block(rest, env, owned, mon, tail))
            # l += <list expr>
            if isinstance(s, ast.AugAssign) and isinstance(s.op, ast.Add) and isinstance(s.target, ast.Name) \
                    and env.get(s.target.id, ("?",))[0] == "list":
                env, owned = dict(env), set(owned)
                v = s.target.id
                kv = env[v]
                self.need_owned(v, owned, s, "+=")
                pre, t, kt, _ = self.expr(s.value, env)
                if kt[0] != "list" or kt[1] is None or any(pv == v for pv, _ in pre):
                    raise Reject("%s: `+=` with a value of kind %r" % (where(s), kt))
                if kv[1] is None:
                    kv = kt
                    env[v] = kv
                if kv != kt:
                    raise Reject("%s: `+=` of a %r into a %r" % (where(s), kt, kv))
                return self.pre_lets(pre) + "let %s := (%s ++ %s) in\n%s" % (v, v, t, self.block(rest, env, owned, mon, tail))
            # registry.update({p.name: c for p in <iter>})
            if isinstance(s, ast.Expr) and isinstance(s.value, ast.Call) and isinstance(s.value.func, ast.Attribute) \
                    and isinstance(s.value.func.value, ast.Name) and env.get(s.value.func.value.id) == DEAD:
                c = s.value
                if c.func.attr != "update" or c.keywords or len(c.args) != 1 or not isinstance(c.args[0], ast.DictComp):
                    raise Reject("%s: method call on the write-only registry" % where(s))
                dc = c.args[0]
                if len(dc.generators) != 1 or dc.generators[0].ifs or dc.generators[0].is_async \
                        or not isinstance(dc.generators[0].target, ast.Name):
                    raise Reject("%s: dict comprehension shape" % where(s))
                gen = dc.generators[0]
                pi, it, ki, _ = self.expr(gen.iter, env)
                if not g.is_seq(ki) or ki[1] != NODE:
                    raise Reject("%s: dict comprehension over kind %r" % (where(s), ki))
                env2 = dict(env)
                self.bind_pattern(gen.target, NODE, env2)
                key, val = dc.key, dc.value
                if not (isinstance(key, ast.Attribute) and key.attr == "name" and isinstance(key.value, ast.Name)
                        and key.value.id == gen.target.id):
                    raise Reject("%s: registry key must be <loop variable>.name" % where(s))
                pv, _t, kval, _ = self.expr(val, env2)
                if pv or kval[0] in g.MUTABLE:
                    raise Reject("%s: registry value" % where(s))
                return self.pre_lets(pi) + self.block(rest, dict(env), set(owned), mon, tail)
        return super().block(stmts, env, owned, mon, tail)

    def if_stmt(self, s, rest, env, owned, mon, tail):
        # inside a loop of a py4 function: `if c: <updates> else: raise E(...)` (the last branch of an if / elif chain)
        if self.py4 and mon and tail is not None and getattr(tail, "in_loop", False) and len(s.orelse) == 1 \
                and isinstance(s.orelse[0], ast.Raise) and s.body and not any(isinstance(n, (ast.Raise, ast.Return)) for b in s.body for n in ast.walk(b)):
            pre, c, kc, _ = self.expr(s.test, env)
            if kc != BOOL:
                raise Reject("%s: condition of kind %r" % (where(s), kc))
            vs = [v for v in self.assigned(s.body) if v in env]
            if not vs:
                raise Reject("%s: if statement without effect" % where(s))
            a = self.block(s.body, dict(env), set(owned), True, self.branch_tail(vs, True, env, owned, s, tail))
            b = self.block(s.orelse, dict(env), set(owned), True, None)
            return self.pre_lets(pre) + "py_bind (if %s then\n%s\nelse\n%s) (fun %s =>\n%s)" % (
                c, a, b, self.lam(vs), self.block(rest, env, owned, mon, tail))
        # an if both of whose branches leave the function, a branch possibly ending in such an if itself
        def leaves(blk):
            return bool(blk) and (isinstance(blk[-1], (ast.Return, ast.Raise)) or (
                isinstance(blk[-1], ast.If) and leaves(blk[-1].body) and leaves(blk[-1].orelse)))
        if self.py4 and mon and leaves(s.body) and leaves(s.orelse) and not isinstance(s.body[-1], (ast.Return, ast.Raise)):
            if rest or (tail is not None and getattr(tail, "in_loop", False)):
                raise Reject("%s: code after an if whose branches both leave the function / inside a loop" % where(s))
            pre, c, kc, _ = self.expr(s.test, env)
            if kc != BOOL:
                raise Reject("%s: condition of kind %r" % (where(s), kc))
            return self.pre_lets(pre) + "if %s then\n%s\nelse\n%s" % (
                c, self.block(s.body, dict(env), set(owned), mon, None), self.block(s.orelse, dict(env), set(owned), mon, None))
        return super().if_stmt(s, rest, env, owned, mon, tail)

    def for_stmt(self, s, rest, env, owned, mon, tail):
        # for .. in l: if c: raise E(...)
        if not s.orelse and len(s.body) == 1 and isinstance(s.body[0], ast.If) and not s.body[0].orelse \
                and len(s.body[0].body) == 1 and isinstance(s.body[0].body[0], ast.Raise):
            if not mon or (tail is not None and getattr(tail, "in_loop", False)):
                raise Reject("%s: raising loop nested in a loop / in a pure function" % where(s))
            r = s.body[0].body[0]
            ex = r.exc
            nm = ex.func.id if isinstance(ex, ast.Call) and isinstance(ex.func, ast.Name) else None
            if nm not in g.EXCS or r.cause is not None or nm in env:
                raise Reject("%s: raise of %r" % (where(r), nm))
            pi, it, ki, _ = self.expr(s.iter, env)
            if pi or not g.is_seq(ki) or ki[1] is None:
                raise Reject("%s: for over a value of kind %r" % (where(s), ki))
            env2 = dict(env)
            p = self.bind_pattern(s.target, ki[1], env2)
            for n in ast.walk(s.target):
                if isinstance(n, ast.Name) and n.id in env:
                    raise Reject("%s: loop variable %r is rebound" % (where(s), n.id))
            pc, c, kc, _ = self.expr(s.body[0].test, env2)
            if pc or kc != BOOL:
                raise Reject("%s: condition of the raising loop" % where(s))
            return "py_bind (py_for %s (fun _ %s => if %s then Exc %s else Val tt) tt) (fun _ =>\n%s)" % (
                it, p, c, nm, self.block(rest, env, owned, mon, tail))
        # for x in (a, b): a display of names; the loop variable leaks (bound to the last element afterwards)
        if isinstance(s.iter, (ast.Tuple, ast.List)) and s.iter.elts and all(isinstance(x, ast.Name) for x in s.iter.elts) \
                and isinstance(s.target, ast.Name):
            if tail is not None and getattr(tail, "in_loop", False):
                raise Reject("%s: loop over a display nested in a loop" % where(s))
            s2 = ast.For(target=s.target, iter=ast.List(elts=list(s.iter.elts), ctx=ast.Load()), body=s.body, orelse=s.orelse)
            ast.copy_location(s2, s)
            ast.copy_location(s2.iter, s.iter)
            leak = ast.Assign(targets=[ast.Name(id=s.target.id, ctx=ast.Store())], value=ast.Name(id=s.iter.elts[-1].id, ctx=ast.Load()))
            ast.copy_location(leak, s)
            ast.copy_location(leak.targets[0], s)
            ast.copy_location(leak.value, s)
            env = dict(env)
            if env.get(s.target.id) == NODE and s.target.id not in [p for p, _ in self.params]:
                del env[s.target.id]          # leaked by a previous loop: rebound by this one
            s, rest = s2, [leak] + list(rest)
        saved = (self.tr.sites_n, self.tr.sites_e, self.tr.sites_c, self.tr.tmp)
        pi, it, ki, _ = self.expr(s.iter, env)      # probe only (the base method evaluates s.iter again): counters restored
        self.tr.sites_n, self.tr.sites_e, self.tr.sites_c, self.tr.tmp = saved
        single = isinstance(s.target, ast.Name) and ki[0] in ("list", "coll", "set", "deque") and ki[1] == NODE
        self.loopvar.append(s.target.id if single else None)
        try:
            return self._for(s, rest, env, owned, mon, tail)
        finally:
            self.loopvar.pop()

    def _for(self, s, rest, env, owned, mon, tail):
        return super().for_stmt(s, rest, env, owned, mon, tail)

    def _refinable(self, k0, k1):
        return k0[0] in ("list", "deque", "set") and k0[1] is None and k1[0] == k0[0]

    def branch_tail(self, vs, mon, env0, owned0, s, outer):
        def tail(env, owned):
            for v in vs:
                if env.get(v) != env0.get(v):
                    if not self._refinable(env0[v], env[v]):
                        raise Reject("%s: %r changes kind in a branch" % (where(s), v))
                    env0[v] = env[v]              # `x = set()` before the if, first `|=` in a branch
                if (v in owned0) != (v in owned):
                    raise Reject("%s: ownership of %r differs between branches" % (where(s), v))
            return self.wrap(mon, self.pat(vs))
        tail.in_loop = getattr(outer, "in_loop", False) if outer is not None else False
        return tail

    def check_tail(self, vs, mon, env0, owned0, s):
        def tail(env, owned):
            for v in vs:
                if env.get(v) != env0.get(v):
                    if not self._refinable(env0[v], env[v]):
                        raise Reject("%s: %r changes kind inside the loop" % (where(s), v))
                    env0[v] = env[v]
                if (v in owned0) != (v in owned):
                    raise Reject("%s: ownership of %r changes inside the loop" % (where(s), v))
            return self.wrap(mon, self.pat(vs))
        tail.in_loop = True
        return tail


class OTranslator(g.Translator):
    def __init__(self, src, callee_sigs):
        super().__init__(src)
        self.sites_c = 0
        self.check_module()
        self.done.update(callee_sigs)
        self.external = set(callee_sigs)

    def check_module(self):
        """the module-level names the translation relies on are bound exactly as expected, once"""
        bound = {}
        for n in ast.walk(self.tree):
            if isinstance(n, ast.ImportFrom):
                for a in n.names:
                    bound.setdefault(a.asname or a.name, []).append("." * n.level + (n.module or ""))
            elif isinstance(n, ast.Import):
                for a in n.names:
                    bound.setdefault((a.asname or a.name).split(".")[0], []).append("import")
            elif isinstance(n, (ast.FunctionDef, ast.ClassDef, ast.AsyncFunctionDef)):
                bound.setdefault(n.name, []).append("def")
            elif isinstance(n, (ast.Global, ast.Nonlocal)):
                for x in n.names:
                    bound.setdefault(x, []).append("global")
        for n in self.tree.body:
            if isinstance(n, (ast.Assign, ast.AugAssign, ast.AnnAssign)):
                for t in (n.targets if isinstance(n, ast.Assign) else [n.target]):
                    for x in ast.walk(t):
                        if isinstance(x, ast.Name):
                            bound.setdefault(x.id, []).append("= " + (ast.unparse(n.value) if n.value is not None else "?"))
        for name, mod in IMPORTED.items():
            if bound.get(name) != [mod]:
                raise Reject("module level: %r must be bound once, by `from %s import %s` (found %r)" % (name, mod, name, bound.get(name)))
        for name, txt in PINNED_ASSIGN.items():
            if bound.get(name) != ["= " + txt]:
                raise Reject("module level: %r must be bound once, as `%s = %s` (found %r)" % (name, name, txt, bound.get(name)))
        for name in ("type", "set", "len", "list", "isinstance", "ValueError"):
            if name in bound:
                raise Reject("module level: builtin %r is rebound" % name)

    def need_check_all_nodes(self):
        fns = [n for n in self.tree.body if isinstance(n, ast.FunctionDef) and n.name == "_check_all_nodes"]
        if len(fns) != 1 or ast.get_source_segment(self.src, fns[0]) != CHECK_ALL_NODES_TEXT:
            raise Reject("function _check_all_nodes: its text differs from the pinned one")
        self.check_all_nodes_seg = CHECK_ALL_NODES_TEXT

    def link_function(self):
        fns = [n for n in self.tree.body if isinstance(n, ast.FunctionDef) and n.name == "link"]
        if len(fns) != 1:
            raise Reject("function link: %d definitions found" % len(fns))
        fd = fns[0]
        if fd.decorator_list or ast.unparse(fd.args) != LINK_SIG:
            raise Reject("function link: signature is `%s`, expected `%s`" % (ast.unparse(fd.args), LINK_SIG))
        if len([n for n in ast.walk(fd) if isinstance(n, ast.Name) and n.id == "name"]) != 1:
            raise Reject("function link: the parameter `name` must occur exactly once (Model(..., name=name))")
        body = list(fd.body)
        if body and isinstance(body[0], ast.Expr) and isinstance(body[0].value, ast.Constant) and isinstance(body[0].value.value, str):
            body = body[1:]
        self.check_all_nodes_seg = None
        f = LinkFn(self, fd)
        text = f.block(body, {"node1": OPND, "node2": OPND, "name": NAME}, True, None)
        if self.check_all_nodes_seg is None:
            raise Reject("function link: no call of _check_all_nodes")
        self.done["link"] = {"params": [("node1", OPND), ("node2", OPND), ("name", NAME)], "ret": MRES, "ret_fresh": [True],
                             "monadic": True, "fuel": False}
        text = CHECK_ALL_NODES_COQ + "\n\n(* %s :: link   may raise: py4 _ *)\nDefinition link (node1 : operand) (node2 : operand) (name : unit) :=\n%s." % (SOURCE, text)
        return text, self.check_all_nodes_seg + "\n" + ast.get_source_segment(self.src, fd)

    def function(self, name, params):
        fns = [n for n in self.tree.body if isinstance(n, ast.FunctionDef) and n.name == name]
        if len(fns) != 1:
            raise Reject("function %s: %d definitions found" % (name, len(fns)))
        fd = fns[0]
        a = fd.args
        if name == "merge":
            if fd.decorator_list or ast.unparse(a) != MERGE_SIG:
                raise Reject("function merge: signature is `%s`, expected `%s`" % (ast.unparse(a), MERGE_SIG))
        elif a.vararg or a.kwarg or a.kwonlyargs or a.posonlyargs or fd.decorator_list or a.defaults:
            raise Reject("function %s: signature shape" % name)
        elif [x.arg for x in a.args] != [p for p, _ in params]:
            raise Reject("function %s: parameters are %r, expected %r" % (name, [x.arg for x in a.args], [p for p, _ in params]))
        seg = ast.get_source_segment(self.src, fd)
        stored = {n.id for n in ast.walk(fd) if isinstance(n, ast.Name) and isinstance(n.ctx, ast.Store)} | {p for p, _ in params}
        allnames = {n.id for n in ast.walk(fd) if isinstance(n, ast.Name)}
        for bad in sorted(x for x in stored if x in RESERVED2 or x.startswith("ord_") or x in self.done):
            if bad in ("list", "set", "deque", "len", "sorted", "defaultdict", "type", "Concat", "_MULTI_INPUTS_OPS") \
                    or bad in self.done or bad + "_" in allnames:
                raise Reject("function %s: variable name %r cannot be renamed safely" % (name, bad))
            for n in ast.walk(fd):
                if isinstance(n, ast.Name) and n.id == bad:
                    n.id = bad + "_"
        f = OFn(self, name, params)
        f.params, f.ret, f.fdef, f.loopvar = params, None, fd, []
        f.py4 = any(isinstance(n, ast.Raise) and isinstance(n.exc, ast.Call) and isinstance(n.exc.func, ast.Name)
                    and n.exc.func.id == "TypeError" for n in ast.walk(fd))
        if f.py4 and name != "merge":
            raise Reject("function %s: raise TypeError is understood only in merge" % name)
        if name == "merge":
            uses = [n for n in ast.walk(fd) if isinstance(n, ast.Name) and n.id == "name"]
            if len(uses) != 1:
                raise Reject("function merge: the parameter `name` must occur exactly once (Model(..., name=name))")
        env = {p: k for p, k in params}
        mon = f.raises(fd.body)
        f.monadic = mon
        body = f.block(fd.body, env, set(), mon, None)
        if f.ret is None:
            raise Reject("function %s: no return" % name)
        if f.py4:
            if f.uses_fuel or not mon:
                raise Reject("function %s: py4 shape" % name)
            body = re.sub(r"\bpy_bind\b", "py4_bind", body)
            body = re.sub(r"\bpy_for\b", "py4_for", body)
            body = re.sub(r"\bVal\b", "Val4", body)
            body = re.sub(r"\bExc TypeError\b", "Exc4 TypeError", body)
            body = re.sub(r"\bExc (%s)\b" % "|".join(sorted(g.EXCS)), r"Exc4 (Py \1)", body)
            if re.search(r"\b(Exc|OutOfFuel|py_while)\b", body):
                raise Reject("function %s: a construct of `py` is left in a py4 function" % name)
        sig = " ".join("(%s : %s)" % (p, coqtype(k)) for p, k in params)
        if f.uses_fuel:
            sig = "(fuel : nat) " + sig
        self.done[name] = {"params": params, "ret": f.ret, "ret_fresh": f.ret_fresh, "monadic": mon, "fuel": f.uses_fuel}
        text = "(* %s :: %s   %s *)\nDefinition %s %s :=\n%s." % (SOURCE, name, "may raise: py _" if mon else "pure", name, sig, body)
        return text, seg


# ---------------------------------------------------------------------------------------------------- link (v3)
LINK_SIG = "node1: Union[_Node, Sequence[_Node]], node2: Union[_Node, Sequence[_Node]], name: str=None"
CHECK_ALL_NODES_TEXT = """def _check_all_nodes(*nodes):
    msg = "Impossible to link nodes: object {} is neither a Node nor a Model."
    for nn in nodes:
        if isinstance(nn, Iterable):
            for n in nn:
                if not isinstance(n, _Node):
                    raise TypeError(msg.format(n))
        else:
            if not isinstance(nn, _Node):
                raise TypeError(msg.format(nn))"""
CHECK_ALL_NODES_COQ = """(* reservoirpy/ops.py :: _check_all_nodes   PINNED by its exact source text (an operand that is Iterable is [OSeq]) *)
Definition check_all_nodes (nodes : list operand) : py4 unit :=
py4_for nodes (fun _ nn => match nn with
| OSeq nn => py4_for nn (fun _ n => if (negb (is_node n)) then Exc4 TypeError else Val4 tt) tt
| ONode nn => if (negb (is_node nn)) then Exc4 TypeError else Val4 tt
end) tt."""
ELIST = ("elist",)
LINK_RENAME = {"left", "right"}


class LinkFn:
    """`link` of ops.py: its own small statement walker (always over py4).  Accepted, everything else REJECTED:
      parameters node1 / node2 : `operand` (an object, or a Sequence of objects = OSeq; str / other Sequences are out of scope)
      `_check_all_nodes(a, b)`                      `check_all_nodes [a; b]` (callee pinned by its exact text, see CHECK_ALL_NODES_TEXT)
      `if [not] isinstance(p, Sequence): A else: B` p an operand: `match p with OSeq p => A | ONode p => B end`; inside A p is a list
                                                    of objects, inside B an object; A / B only update variables; a variable (p
                                                    itself included: `p = [p]`) must have the same kind after both branches
      `v = []`                                      an ERASED list (list unit): only `v.append(x)`, `v += [<x.name | x> for x in l if c]`,
                                                    `len(v)` and its mention in an exception message are accepted on it
      `v = set()`, `v |= set(l)`                    as in merge;  `if c: A [else: B]` over pure updates;  `len(v) > 0`
      `if c: raise TypeError(<str / f-string of names>)`   `if c then Exc4 TypeError else <rest>`
      `for x in l:` (l a list of objects, nested allowed)   py4_for, state = the variables assigned in the body
      `a, b = _link_1to1(x, y)`                     `py4_bind (py4_lift (_link_1to1 x y)) (fun '(a, b) => ..)`: the callee translated above
                                                    over `py` (no fuel: checked), lifted into py4
      `return Model(nodes=list(s), edges=list(t), name=name)`   `Val4 (MNew (ord_n k s) (ord_e k t))`"""

    def __init__(self, tr, fd):
        self.tr, self.fd = tr, fd
        names = {n.id for n in ast.walk(fd) if isinstance(n, ast.Name)} | {a.arg for a in fd.args.args}
        self.ren = {x for x in names if x in LINK_RENAME}
        for x in self.ren:
            if x + "_" in names:
                raise Reject("function link: variable name %r cannot be renamed safely" % x)

    def rn(self, s, n):
        if s in self.ren:
            return s + "_"
        if s in RESERVED2 or s.startswith("ord_") or s in self.tr.done or s in ("check_all_nodes", "py4_lift", "link"):
            raise Reject("%s: variable name %r clashes with the generated vocabulary" % (where(n), s))
        return s

    def pat(self, vs):
        return self.rn(vs[0], self.fd) if len(vs) == 1 else "'(" + ", ".join(self.rn(v, self.fd) for v in vs) + ")"

    def tup(self, vs):
        return self.rn(vs[0], self.fd) if len(vs) == 1 else "(" + ", ".join(self.rn(v, self.fd) for v in vs) + ")"

    def assigned(self, stmts):
        out = []
        for st in stmts:
            comp = {id(x) for c in ast.walk(st) if isinstance(c, ast.comprehension) for x in ast.walk(c.target)}
            for n in ast.walk(st):
                v = None
                if isinstance(n, ast.Name) and isinstance(n.ctx, ast.Store) and id(n) not in comp:
                    v = n.id
                if isinstance(n, ast.Call) and isinstance(n.func, ast.Attribute) and isinstance(n.func.value, ast.Name):
                    v = n.func.value.id
                if v is not None and v not in out:
                    out.append(v)
        return out

    def isinst(self, e, env):
        """isinstance(<name>, <Name>) -> (name, class) or None"""
        if isinstance(e, ast.Call) and isinstance(e.func, ast.Name) and e.func.id == "isinstance" and not e.keywords \
                and len(e.args) == 2 and isinstance(e.args[0], ast.Name) and isinstance(e.args[1], ast.Name) \
                and "isinstance" not in env and e.args[1].id not in env:
            return e.args[0].id, e.args[1].id
        return None

    def expr(self, e, env):
        if isinstance(e, ast.Name) and isinstance(e.ctx, ast.Load):
            if e.id not in env:
                raise Reject("%s: unknown name %r" % (where(e), e.id))
            return self.rn(e.id, e), env[e.id]
        ii = self.isinst(e, env)
        if ii is not None and ii[1] in CLASSES:
            if env.get(ii[0]) != NODE:
                raise Reject("%s: isinstance(.., %s) of a value of kind %r" % (where(e), ii[1], env.get(ii[0])))
            return "(%s %s)" % (CLASSES[ii[1]], self.rn(ii[0], e)), BOOL
        if isinstance(e, ast.UnaryOp) and isinstance(e.op, ast.Not):
            t, k = self.expr(e.operand, env)
            if k != BOOL:
                raise Reject("%s: not of kind %r" % (where(e), k))
            return "(negb %s)" % t, BOOL
        if isinstance(e, ast.BoolOp):
            parts = [self.expr(v, env) for v in e.values]
            if any(k != BOOL for _, k in parts):
                raise Reject("%s: and / or of non-booleans" % where(e))
            f = "andb" if isinstance(e.op, ast.And) else "orb"
            t = parts[-1][0]
            for q, _ in reversed(parts[:-1]):
                t = "(%s %s %s)" % (f, q, t)
            return t, BOOL
        if isinstance(e, ast.Compare) and len(e.ops) == 1 and isinstance(e.ops[0], ast.Gt) and isinstance(e.comparators[0], ast.Constant) \
                and type(e.comparators[0].value) is int and e.comparators[0].value >= 0 and isinstance(e.left, ast.Call) \
                and isinstance(e.left.func, ast.Name) and e.left.func.id == "len" and "len" not in env and len(e.left.args) == 1 \
                and not e.left.keywords and isinstance(e.left.args[0], ast.Name):
            t, k = self.expr(e.left.args[0], env)
            if k != ELIST and k[0] not in ("list", "set") or k[1:] == (None,):
                raise Reject("%s: len of kind %r" % (where(e), k))
            return "(%d <? length %s)" % (e.comparators[0].value, t), BOOL
        if isinstance(e, ast.List) and len(e.elts) == 1 and isinstance(e.elts[0], ast.Name):
            t, k = self.expr(e.elts[0], env)
            if k != NODE:
                raise Reject("%s: list display of kind %r" % (where(e), k))
            return "[%s]" % t, L(NODE)
        if isinstance(e, ast.Call) and isinstance(e.func, ast.Name) and e.func.id in ("set", "list") and e.func.id not in env \
                and not e.keywords and len(e.args) == 1 and isinstance(e.args[0], ast.Name):
            t, k = self.expr(e.args[0], env)
            if e.func.id == "set" and k[0] == "list" and k[1] in (NODE, EDGE):
                return "(py_set %s)" % t, SET(k[1])
            if e.func.id == "list" and k in (SET(NODE), SET(EDGE)):
                if k[1] == NODE:
                    self.tr.sites_n += 1
                    return "(ord_n %d %s)" % (self.tr.sites_n - 1, t), L(NODE)
                self.tr.sites_e += 1
                return "(ord_e %d %s)" % (self.tr.sites_e - 1, t), L(EDGE)
            raise Reject("%s: %s() of kind %r" % (where(e), e.func.id, k))
        raise Reject("%s: expression %s is outside the fragment understood in link" % (where(e), ast.unparse(e)))

    def message_ok(self, e, env):
        if isinstance(e, ast.Constant) and isinstance(e.value, str):
            return True
        if isinstance(e, ast.JoinedStr):
            return all((isinstance(v, ast.Constant) and isinstance(v.value, str)) or
                       (isinstance(v, ast.FormattedValue) and isinstance(v.value, ast.Name) and v.value.id in env
                        and v.format_spec is None) for v in e.values)
        return False

    def block(self, stmts, env, mon, tail):
        """-> text.  mon: the block is a py4 computation; tail(env) closes a block that falls through"""
        if not stmts:
            if tail is None:
                raise Reject("function link: a path falls off the end of the function")
            return tail(env)
        s, rest = stmts[0], stmts[1:]
        env = dict(env)
        # _check_all_nodes(a, b)
        if isinstance(s, ast.Expr) and isinstance(s.value, ast.Call) and isinstance(s.value.func, ast.Name) \
                and s.value.func.id == "_check_all_nodes":
            c = s.value
            if not mon or c.keywords or not c.args or "_check_all_nodes" in env or not all(
                    isinstance(a, ast.Name) and env.get(a.id) == OPND for a in c.args):
                raise Reject("%s: _check_all_nodes call shape" % where(s))
            self.tr.need_check_all_nodes()
            return "py4_bind (check_all_nodes [%s]) (fun _ =>\n%s)" % ("; ".join(self.rn(a.id, a) for a in c.args),
                                                                      self.block(rest, env, mon, tail))
        # v = [] / v = set()
        if isinstance(s, ast.Assign) and len(s.targets) == 1 and isinstance(s.targets[0], ast.Name):
            v, val = s.targets[0].id, s.value
            if isinstance(val, ast.List) and not val.elts:
                if v in env:
                    raise Reject("%s: %r is rebound to []" % (where(s), v))
                env[v] = ELIST
                return "let %s := ([] : list unit) in\n%s" % (self.rn(v, s), self.block(rest, env, mon, tail))
            if isinstance(val, ast.Call) and isinstance(val.func, ast.Name) and val.func.id == "set" and not val.args \
                    and not val.keywords and "set" not in env:
                if v in env:
                    raise Reject("%s: %r is rebound to set()" % (where(s), v))
                env[v] = SET(None)
                return "let %s := [] in\n%s" % (self.rn(v, s), self.block(rest, env, mon, tail))
            t, k = self.expr(val, env)
            if k != L(NODE) or env.get(v) not in (None, NODE, L(NODE)):
                raise Reject("%s: assignment of kind %r to %r (%r)" % (where(s), k, v, env.get(v)))
            env[v] = k
            return "let %s := %s in\n%s" % (self.rn(v, s), t, self.block(rest, env, mon, tail))
        # a, b = _link_1to1(x, y)
        if isinstance(s, ast.Assign) and len(s.targets) == 1 and isinstance(s.targets[0], ast.Tuple) \
                and isinstance(s.value, ast.Call) and isinstance(s.value.func, ast.Name) and s.value.func.id == "_link_1to1":
            c, tg = s.value, s.targets[0]
            sig = self.tr.done.get("_link_1to1")
            if sig is None or not sig["monadic"] or sig["fuel"] or sig["ret"] != T(L(NODE), L(EDGE)) \
                    or [k for _, k in sig["params"]] != [NODE, NODE]:
                raise Reject("%s: _link_1to1 has an unexpected translated signature %r" % (where(s), sig))
            if not mon or c.keywords or len(c.args) != 2 or "_link_1to1" in env or len(tg.elts) != 2 \
                    or not all(isinstance(x, ast.Name) for x in tg.elts) or tg.elts[0].id == tg.elts[1].id \
                    or any(x.id in env for x in tg.elts):
                raise Reject("%s: _link_1to1 call shape" % where(s))
            args = [self.expr(a, env) for a in c.args]
            if any(k != NODE or not isinstance(a, ast.Name) for (_, k), a in zip(args, c.args)):
                raise Reject("%s: _link_1to1 on kinds %r" % (where(s), [k for _, k in args]))
            env[tg.elts[0].id], env[tg.elts[1].id] = L(NODE), L(EDGE)
            return "py4_bind (py4_lift (_link_1to1 %s %s)) (fun '(%s, %s) =>\n%s)" % (
                args[0][0], args[1][0], self.rn(tg.elts[0].id, s), self.rn(tg.elts[1].id, s), self.block(rest, env, mon, tail))
        # v |= set(l)
        if isinstance(s, ast.AugAssign) and isinstance(s.op, ast.BitOr) and isinstance(s.target, ast.Name):
            v = s.target.id
            t, k = self.expr(s.value, env)
            kv = env.get(v)
            if kv is None or kv[0] != "set" or k[0] != "set" or k[1] is None or kv[1] not in (None, k[1]):
                raise Reject("%s: `|=` of a %r into %r of kind %r" % (where(s), k, v, kv))
            env[v] = k
            return "let %s := set_union %s %s in\n%s" % (self.rn(v, s), self.rn(v, s), t, self.block(rest, env, mon, tail))
        # v += [<x.name | x> for x in l if c]        (v an erased list)
        if isinstance(s, ast.AugAssign) and isinstance(s.op, ast.Add) and isinstance(s.target, ast.Name) \
                and env.get(s.target.id) == ELIST and isinstance(s.value, ast.ListComp):
            lc, v = s.value, self.rn(s.target.id, s)
            if len(lc.generators) != 1 or lc.generators[0].is_async or len(lc.generators[0].ifs) > 1 \
                    or not isinstance(lc.generators[0].target, ast.Name) or not isinstance(lc.generators[0].iter, ast.Name):
                raise Reject("%s: comprehension shape" % where(s))
            gen = lc.generators[0]
            it, ki = self.expr(gen.iter, env)
            x = gen.target.id
            if ki != L(NODE) or x in env:
                raise Reject("%s: comprehension over kind %r / loop variable %r rebound" % (where(s), ki, x))
            env2 = dict(env)
            env2[x] = NODE
            el = lc.elt
            if not ((isinstance(el, ast.Name) and el.id == x) or (isinstance(el, ast.Attribute) and el.attr == "name"
                    and isinstance(el.value, ast.Name) and el.value.id == x)):
                raise Reject("%s: element of an erased list must be <loop variable> or <loop variable>.name" % where(s))
            src = it
            if gen.ifs:
                c, kc = self.expr(gen.ifs[0], env2)
                if kc != BOOL:
                    raise Reject("%s: comprehension condition" % where(s))
                src = "(filter (fun %s => %s) %s)" % (self.rn(x, s), c, it)
            return "let %s := (%s ++ map (fun %s => tt) %s) in\n%s" % (v, v, self.rn(x, s), src, self.block(rest, env, mon, tail))
        # v.append(x)     (v an erased list)
        if isinstance(s, ast.Expr) and isinstance(s.value, ast.Call) and isinstance(s.value.func, ast.Attribute) \
                and s.value.func.attr == "append" and isinstance(s.value.func.value, ast.Name):
            c, v = s.value, s.value.func.value.id
            if env.get(v) != ELIST or c.keywords or len(c.args) != 1 or not isinstance(c.args[0], ast.Name) \
                    or env.get(c.args[0].id) != NODE:
                raise Reject("%s: .append shape" % where(s))
            return "let %s := (%s ++ [tt]) in\n%s" % (self.rn(v, s), self.rn(v, s), self.block(rest, env, mon, tail))
        if isinstance(s, ast.If):
            test, neg = s.test, False
            if isinstance(test, ast.UnaryOp) and isinstance(test.op, ast.Not):
                test, neg = test.operand, True
            ii = self.isinst(test, env)
            # if c: raise TypeError(..)
            if len(s.body) == 1 and isinstance(s.body[0], ast.Raise) and not s.orelse:
                r = s.body[0]
                ex = r.exc
                if not mon or not (isinstance(ex, ast.Call) and isinstance(ex.func, ast.Name) and ex.func.id == "TypeError"
                                   and "TypeError" not in env and not ex.keywords and len(ex.args) == 1
                                   and self.message_ok(ex.args[0], env)) or r.cause is not None:
                    raise Reject("%s: raise shape" % where(r))
                c, kc = self.expr(s.test, env)
                if kc != BOOL:
                    raise Reject("%s: condition of kind %r" % (where(s), kc))
                return "if %s then Exc4 TypeError else\n%s" % (c, self.block(rest, env, mon, tail))
            vs = [v for v in self.assigned(s.body + s.orelse)]
            if not vs or any(v not in env for v in vs):
                raise Reject("%s: an if must update variables bound before it (%r)" % (where(s), vs))
            for n in ast.walk(s):
                if n is not s and isinstance(n, (ast.Raise, ast.Return, ast.For, ast.While, ast.Try, ast.With)) or (
                        isinstance(n, ast.Call) and isinstance(n.func, ast.Name) and n.func.id in ("_link_1to1", "_check_all_nodes")):
                    raise Reject("%s: only variable updates are understood inside this if" % where(n))
            ends = []
            def btail(e2):
                ends.append({v: e2.get(v) for v in vs})
                return self.tup(vs)
            if ii is not None and ii[1] == "Sequence" and "Sequence" not in env:
                p = ii[0]
                if env.get(p) != OPND:
                    raise Reject("%s: isinstance(%s, Sequence) on kind %r" % (where(s), p, env.get(p)))
                ea, eb = dict(env), dict(env)
                ea[p], eb[p] = L(NODE), NODE
                sa, sb = (s.orelse, s.body) if neg else (s.body, s.orelse)
                a = self.block(sa, ea, False, btail)
                b = self.block(sb, eb, False, btail)
                t = "match %s with\n| OSeq %s =>\n%s\n| ONode %s =>\n%s\nend" % (self.rn(p, s), self.rn(p, s), a, self.rn(p, s), b)
            else:
                c, kc = self.expr(s.test, env)
                if kc != BOOL:
                    raise Reject("%s: condition of kind %r" % (where(s), kc))
                a = self.block(s.body, dict(env), False, btail)
                b = self.block(s.orelse, dict(env), False, btail)
                t = "(if %s then\n%s\nelse\n%s)" % (c, a, b)
            if len(ends) != 2 or ends[0] != ends[1] or any(k is None or k == SET(None) for k in ends[0].values()):
                raise Reject("%s: the branches leave different kinds: %r" % (where(s), ends))
            env.update(ends[0])
            return "let %s := %s in\n%s" % (self.pat(vs), t, self.block(rest, env, mon, tail))
        if isinstance(s, ast.For):
            if not mon or s.orelse or not isinstance(s.target, ast.Name) or not isinstance(s.iter, ast.Name) or s.target.id in env:
                raise Reject("%s: for shape" % where(s))
            it, ki = self.expr(s.iter, env)
            if ki != L(NODE):
                raise Reject("%s: for over kind %r" % (where(s), ki))
            for n in ast.walk(s):
                if isinstance(n, (ast.Return, ast.Break, ast.Continue, ast.While)):
                    raise Reject("%s: return / break / continue inside a loop" % where(n))
            vs = [v for v in self.assigned(s.body) if v in env]
            if not vs or s.iter.id in vs:
                raise Reject("%s: loop without effect / the iterated list is updated" % where(s))
            env2 = dict(env)
            env2[s.target.id] = NODE
            ends = []
            def ltail(e2):
                ends.append({v: e2.get(v) for v in vs})
                return "Val4 " + self.tup(vs)
            # a set still of unknown element kind is fixed by the body: translate twice when the kinds were refined
            body = self.block(s.body, env2, True, ltail)
            if ends[-1] != {v: env.get(v) for v in vs}:
                for v in vs:
                    if env[v] != ends[-1][v] and env[v] != SET(None):
                        raise Reject("%s: %r changes kind inside the loop" % (where(s), v))
                    env[v] = ends[-1][v]
                return self.block(stmts, env, mon, tail)
            env3 = dict(env)
            return "py4_bind (py4_for %s (fun %s %s =>\n%s) %s) (fun %s =>\n%s)" % (
                it, self.pat(vs), self.rn(s.target.id, s), body, self.tup(vs), self.pat(vs), self.block(rest, env3, mon, tail))
        # return Model(nodes=list(s), edges=list(t), name=name)
        if isinstance(s, ast.Return) and isinstance(s.value, ast.Call) and isinstance(s.value.func, ast.Name) and s.value.func.id == "Model":
            c = s.value
            if rest or not mon or tail is not None or "Model" in env or c.args or [k.arg for k in c.keywords] != ["nodes", "edges", "name"]:
                raise Reject("%s: Model(...) is understood only as the final `return Model(nodes=.., edges=.., name=name)`" % where(s))
            nv = c.keywords[2].value
            if not isinstance(nv, ast.Name) or nv.id != "name" or env.get("name") != NAME:
                raise Reject("%s: Model(..., name=<not the parameter name>)" % where(s))
            a, ka = self.expr(c.keywords[0].value, env)
            b, kb = self.expr(c.keywords[1].value, env)
            if (ka, kb) != (L(NODE), L(EDGE)):
                raise Reject("%s: Model(nodes=, edges=) of kinds %r, %r" % (where(s), ka, kb))
            return "Val4 (MNew %s %s)" % (a, b)
        raise Reject("%s: statement %s is outside the fragment understood in link" % (where(s), type(s).__name__))


def callee_signatures(repo):
    """signature of find_parents_and_children as py2coq_graph translates it from the graphflow.py of the same tree"""
    gt = g.Translator(open(os.path.join(repo, g.SOURCE)).read())
    segs = []
    for name, params in g.FUNCS:
        _t, seg = gt.function(name, params)
        segs.append(seg)
    sig = gt.done["find_parents_and_children"]
    if sig["monadic"] or sig["fuel"] or sig["ret"] != T(DD, DD) or list(sig["ret_fresh"]) != [True, True] \
            or [k for _, k in sig["params"]] != [C(EDGE)]:
        raise Reject("find_parents_and_children: unexpected translated signature %r" % (sig,))
    return {"find_parents_and_children": sig}, hashlib.sha256("\n".join(segs).encode()).hexdigest()


def emit(repo):
    """-> text of coq/gen/Gen_ops.v translated from <repo>/reservoirpy/ops.py (raises Reject)"""
    sigs, gsha = callee_signatures(repo)
    src = open(os.path.join(repo, SOURCE)).read()
    tr = OTranslator(src, sigs)
    defs, segs = [], []
    for name, params in FUNCS:
        t, seg = tr.function(name, params)
        defs.append(t)
        segs.append(seg)
    t, seg = tr.link_function()
    defs.append(t)
    segs.append(seg)
    sha = hashlib.sha256("\n".join(segs).encode()).hexdigest()
    out = ["(* GENERATED by tools/vlib/py2coq_ops.py (%s, on top of %s) from the current source of %s -- DO NOT EDIT." % (VERSION, g.VERSION, SOURCE),
           "   functions: %s;  sha256 of their source texts: %s" % (", ".join([n for n, _ in FUNCS] + ["link (+ _check_all_nodes, pinned)"]), sha),
           "   callee find_parents_and_children: gen/Gen_graphflow.v (sha256 of the graphflow sources: %s)" % gsha,
           "   Regenerated by `./check C03` (pregen).  Vocabulary: base/PyColl.v.",
           "   ord_n k / ord_e k : the order in which Python iterates over a set at conversion site k (%d node sites, %d edge" % (tr.sites_n, tr.sites_e),
           "   sites); sorted_by_name : `sorted(edges, key=%s)`; isc x : `type(x) in _MULTI_INPUTS_OPS` (= (Concat,));" % g.PINNED_KEY,
           "   new_concat k x : the object created by `Concat()` at allocation site k (%d sites) in the loop iteration for node x;" % tr.sites_c,
           "   is_model / is_frozen_model x : isinstance(x, Model / FrozenModel); attr_* x, is_initialized x, output_dim / input_dim x :",
           "   the attribute reads x.nodes, x.edges, x.input_nodes, x.output_nodes, ...; dim_eqb : `==` on dimensions;",
           "   is_node x : isinstance(x, _Node); merge: vocabulary base/PyColl4.v (py4, operand, MNew = `Model(nodes=, edges=, name=)`,",
           "   MUpdate = `.update_graph(,)`, neither call translated);  link: node1 / node2 are operands (`isinstance(x, Sequence)` /",
           "   `Iterable` = OSeq), check_all_nodes = `_check_all_nodes` (pinned by its exact text), py4_lift = the call of the generated",
           "   _link_1to1 from a py4 function, `frozens` erased to a list unit (only its length is used). *)",
           "From Coq Require Import List Bool Arith.",
           "From RV Require Import base.PyColl base.PyColl4 gen.Gen_graphflow.",
           "Import ListNotations.", "",
           "Module GenOps.",
           "Section Gen.",
           "Variable ord_n : nat -> list node -> list node.",
           "Variable ord_e : nat -> list edge -> list edge.",
           "Variable sorted_by_name : list edge -> list edge.",
           "Variable isc : node -> bool.",
           "Variable new_concat : nat -> node -> node.",
           "Variables is_model is_frozen_model is_initialized is_node : node -> bool.",
           "Variables attr_nodes attr_input_nodes attr_output_nodes : node -> list node.",
           "Variable attr_edges : node -> list edge.",
           "Variable dim : Type.",
           "Variables output_dim input_dim : node -> dim.",
           "Variable dim_eqb : dim -> dim -> bool.", "",
           "(* reservoirpy/utils/graphflow.py :: find_parents_and_children, as generated in gen/Gen_graphflow.v *)",
           "Definition find_parents_and_children := GenGraphflow.find_parents_and_children sorted_by_name.", ""]
    out += [d + "\n" for d in defs]
    out += ["End Gen.", "End GenOps.", ""]
    return "\n".join(out)


def pregen():
    """(re)write coq/gen/Gen_ops.v from the tree under test.  Returns None, or the error text (tie broken)."""
    import traceback
    from vlib import core
    gdir = os.path.join(core.COQ, "gen")
    os.makedirs(gdir, exist_ok=True)
    path = os.path.join(gdir, "Gen_ops.v")
    err = None
    try:
        text = emit(core.REPO)
    except Reject as ex:
        err = "translation rejected: %s" % ex
    except Exception:
        err = "translator exception: " + traceback.format_exc()[-1500:]
    if err is not None:
        # no model of the current source exists: never leave a stale one behind (the stub does not compile on purpose)
        text = "(* GENERATED: translation of %s (ops) FAILED -- %s *)\nDefinition translation_failed : True := 0.\n" % (
            SOURCE, err.replace("*)", "* )").replace("(*", "( *"))
    old = open(path).read() if os.path.exists(path) else None
    if old != text:                   # keep the mtime (and the compiled cone) when nothing changed
        with open(path, "w") as f:
            f.write(text)
    return ("unit ops: " + err) if err else None


if __name__ == "__main__":
    import sys
    sys.path.insert(0, os.path.dirname(os.path.dirname(os.path.abspath(__file__))))
    print(emit(sys.argv[1] if len(sys.argv) > 1 else "/repo"))
