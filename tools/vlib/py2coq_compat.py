"""Fail-closed EXTRACTOR for reservoirpy/compat/__init__.py :: load_compat  ->  coq/gen/Gen_compat.v   (tie T, C16).

load_compat is object construction, not numpy algebra: it reads the saved arrays (`matrices`), attributes (`attr`) and functions
(`fns`) of a v0.2 ESN and passes them - transposed, sliced or as they are - as keywords of Reservoir(...), Ridge(...) and
ESN(...).  The extractor reads that keyword table from the CURRENT source text and emits it as Gallina: one
`Definition <callee>_<keyword>` per keyword, a function of the saved record's fields (Section variables m_<array>, a_<attribute>,
fn_<function>).  proofs/Gen_legacy_eq.v proves the table equal to the hand-written conversion map `convert` of model/Store.v.

Accepted, and nothing else:
  * the file/JSON plumbing and the computation of the readout's `ridge` coefficient, as PINNED statements (exact text, in order);
  * `name = <expr>` and `if <optional array> is [not] None: <assignments> [else: <assignments>]`;
  * <expr> ::= matrices['K'] | matrices.get('K') | attr['K'] | attr.get('K') | attr.get('K', attr.get('_K')) | attr.get('K', <number>)
             | fns.get('K', identity) | fns.get('K', 'tanh') | <expr>.T | <expr>[:, 1:] | <expr>[:, :1] | True | False | 'uniform'
             | zeros (the mat_gen initializer: "not trained") | a local name;
  * exactly one `Reservoir(...)`, one `Ridge(...)`, one `ESN_v3(reservoir=, readout=, feedback=)` with keyword arguments only and
    exactly the expected keyword sets, each keyword of the expected type; `return model`;
  * the names Reservoir / Ridge / ESN_v3 / identity / zeros must be bound by the expected imports and nowhere else.
How the files of the saved directory become `matrices` / `attr` / `fns` (_load_files_from_v2: np.load, json, dill) is an oracle of C16.
"""
import ast
import os
import traceback


class Reject(Exception):
    pass


FILE = "reservoirpy/compat/__init__.py"

PINNED = [
    "dirpath = pathlib.Path(directory)",
    'if not dirpath.exists():\n    raise NotADirectoryError(f"\'{directory}\' not found.")',
    "matrices, fns, config = _load_files_from_v2(dirpath)",
    "attr = config.get('attr', config)",
    "version = config.get('version')",
    "msg = 'Impossible to load ESN from version {} of reservoirpy: unknown model {}'",
    "ridge = 0.0",
    "if attr.get('sklearn_model') is not None:\n    raise TypeError(msg.format(version, attr['sklearn_model']))\nelif attr.get('_ridge') is not None:\n    ridge = attr['_ridge']",
    "if attr.get('reg_model') is not None:\n    reg_model = attr['reg_model']\n    if reg_model['type'] not in ('ridge', 'pinv'):\n        raise TypeError(msg.format(version, attr['type']))\n    elif reg_model['type'] == 'ridge':\n        ridge = reg_model.get('coef', 0.0)",
]
IMPORTS = {"identity": "from ..activationsfunc import identity", "zeros": "from ..mat_gen import zeros",
           "ESN_v3": "from ..nodes import ESN as ESN_v3", "Reservoir": "from ..nodes import Reservoir, Ridge",
           "Ridge": "from ..nodes import Reservoir, Ridge"}

MATRICES = ("W", "Win", "Wfb", "Wout")
# saved attributes: Coq type, accepted alias key (older versions saved the private name)
ATTRS = {"N": ("nat", "_N"), "lr": ("F", None), "in_bias": ("bool", "_input_bias"), "dim_out": ("nat", "_dim_out"),
         "noise_in": ("F", None), "noise_rc": ("F", None), "noise_out": ("F", None), "seed": ("opaque", None)}
FNS = ("fbfunc", "activation")

# keyword -> type
KW = {
    "Reservoir": {"units": "nat", "lr": "F", "input_bias": "bool", "W": "mat", "Win": "mat", "Wfb": "optmat", "fb_activation": "fn",
                  "activation": "fn", "noise_in": "F", "noise_rc": "F", "noise_fb": "F", "noise_type": "uniform", "seed": "opaque"},
    "Ridge": {"output_dim": "nat", "ridge": "ridge", "Wout": "optmat", "bias": "optmat", "input_bias": "bool"},
    "ESN_v3": {"reservoir": "obj:Reservoir", "readout": "obj:Ridge", "feedback": "bool"},
}
COQNAME = {"Reservoir": "reservoir", "Ridge": "ridge", "ESN_v3": "esn"}
# the saved record as load_compat sees it (FIXED text, independent of the source): every definition is a function of the whole
# record, so that passing one saved field where another of the same type is expected changes the generated term
SAVED = [("m_W", "list (list F)"), ("m_Win", "list (list F)"), ("m_Wfb", "option (list (list F))"), ("m_Wout", "option (list (list F))"),
         ("a_N", "nat"), ("a_dim_out", "nat"), ("a_lr", "F"), ("a_in_bias", "bool"),
         ("a_noise_in", "option F"), ("a_noise_rc", "option F"), ("a_noise_out", "option F"),
         ("fn_fbfunc", "option (list F -> list F)"), ("fn_activation", "option (list F -> list F)"),
         ("d_identity", "list F -> list F"), ("d_tanh", "list F -> list F")]
COQTYPE = {"nat": "nat", "F": "F", "bool": "bool", "mat": "list (list F)", "optmat": "option (list (list F))", "fn": "list F -> list F"}


def _w(n):
    return "line %s" % getattr(n, "lineno", "?")


class Extractor:
    def __init__(self, tree):
        self.tree = tree
        self.env = {}          # local name -> IR
        self.calls = {}        # callee -> {kw: IR}
        self.objs = {}         # local name -> callee
        self.used = []         # Section variables used, in first-use order: (name, type)

    # ------------------------------------------------------------------ module level: the constructor names
    def check_imports(self):
        lines = [ast.unparse(n) for n in self.tree.body if isinstance(n, (ast.Import, ast.ImportFrom))]
        for name, imp in IMPORTS.items():
            if imp not in lines:
                raise Reject("%s: `%s` is missing: %s is not known to be the v0.3 object it stands for" % (FILE, imp, name))
        for n in ast.walk(self.tree):
            bound = []
            if isinstance(n, (ast.FunctionDef, ast.ClassDef)):
                bound = [n.name] + ([a.arg for a in n.args.args + n.args.kwonlyargs] if isinstance(n, ast.FunctionDef) else [])
            elif isinstance(n, ast.Name) and isinstance(n.ctx, (ast.Store, ast.Del)):
                bound = [n.id]
            elif isinstance(n, (ast.Import, ast.ImportFrom)) and ast.unparse(n) not in IMPORTS.values():
                bound = [(a.asname or a.name).split(".")[0] for a in n.names]
            for b in bound:
                if b in IMPORTS:
                    raise Reject("%s, %s: the name %r is rebound" % (FILE, _w(n), b))

    # ------------------------------------------------------------------ expressions -> IR
    def expr(self, e):
        if isinstance(e, ast.Constant):
            if isinstance(e.value, bool):
                return ("bool", e.value)
            if isinstance(e.value, str):
                return ("str", e.value)
            if isinstance(e.value, (int, float)) and e.value == 0:
                return ("zero",)
            raise Reject("%s: constant %r" % (_w(e), e.value))
        if isinstance(e, ast.Name):
            if e.id in self.env:
                return self.env[e.id]
            if e.id in self.objs:
                return ("obj", self.objs[e.id])
            if e.id == "identity":
                return ("fnconst", "identity")
            if e.id == "zeros":
                return ("zeros_init",)
            raise Reject("%s: unknown name %r" % (_w(e), e.id))
        if isinstance(e, ast.Attribute) and e.attr == "T":
            v = self.expr(e.value)
            if v[0] not in ("mat", "somemat", "T", "cols_from", "cols_to"):
                raise Reject("%s: .T of %s" % (_w(e), v[0]))
            return ("T", v)
        if isinstance(e, ast.Subscript) and isinstance(e.value, ast.Name) and e.value.id in ("matrices", "attr") and e.value.id not in self.env:
            k = e.slice
            if not (isinstance(k, ast.Constant) and isinstance(k.value, str)):
                raise Reject("%s: key %s" % (_w(e), ast.unparse(k)))
            if e.value.id == "matrices":
                if k.value not in MATRICES:
                    raise Reject("%s: unknown saved array %r" % (_w(e), k.value))
                return ("mat", k.value)
            if k.value not in ATTRS:
                raise Reject("%s: unknown saved attribute %r" % (_w(e), k.value))
            return ("attr", k.value, "required")
        if isinstance(e, ast.Subscript):
            v = self.expr(e.value)
            sl = e.slice
            if v[0] in ("mat", "somemat") and isinstance(sl, ast.Tuple) and len(sl.elts) == 2 and all(isinstance(x, ast.Slice) for x in sl.elts):
                r, c = sl.elts
                if r.lower is None and r.upper is None and r.step is None and c.step is None:
                    lo, up = c.lower, c.upper
                    if lo is not None and up is None and isinstance(lo, ast.Constant) and lo.value == 1:
                        return ("cols_from", v, 1)
                    if lo is None and up is not None and isinstance(up, ast.Constant) and up.value == 1:
                        return ("cols_to", v, 1)
            raise Reject("%s: subscript %s" % (_w(e), ast.unparse(e)))
        if isinstance(e, ast.Call) and isinstance(e.func, ast.Attribute) and e.func.attr == "get" and isinstance(e.func.value, ast.Name) \
                and e.func.value.id in ("matrices", "attr", "fns") and e.func.value.id not in self.env and not e.keywords \
                and e.args and isinstance(e.args[0], ast.Constant) and isinstance(e.args[0].value, str):
            src, k = e.func.value.id, e.args[0].value
            if src == "matrices":
                if len(e.args) != 1 or k not in MATRICES:
                    raise Reject("%s: %s" % (_w(e), ast.unparse(e)))
                return ("optmat", k)
            if src == "fns":
                if len(e.args) != 2 or k not in FNS:
                    raise Reject("%s: %s" % (_w(e), ast.unparse(e)))
                d = e.args[1]
                if isinstance(d, ast.Name) and d.id == "identity":
                    return ("fn", k, "identity")
                if isinstance(d, ast.Constant) and d.value == "tanh":
                    return ("fn", k, "tanh")
                raise Reject("%s: default %s of a saved function" % (_w(e), ast.unparse(d)))
            if k not in ATTRS:
                raise Reject("%s: unknown saved attribute %r" % (_w(e), k))
            if len(e.args) == 1:
                return ("attr", k, "optional")
            if len(e.args) == 2:
                d = e.args[1]
                if ast.unparse(d) == "attr.get(%r)" % ATTRS[k][1]:
                    return ("attr", k, "required")              # the same attribute under its older key
                if isinstance(d, ast.Constant) and not isinstance(d.value, bool) and isinstance(d.value, (int, float)) and d.value == 0:
                    return ("attr", k, "zero")
            raise Reject("%s: %s" % (_w(e), ast.unparse(e)))
        raise Reject("%s: expression %s is not accepted" % (_w(e), ast.unparse(e)))

    # ------------------------------------------------------------------ statements
    def test(self, t):
        """<optional array> is None / is not None  ->  (array name, True when the body is the `given` branch)"""
        if isinstance(t, ast.Compare) and len(t.ops) == 1 and isinstance(t.ops[0], (ast.Is, ast.IsNot)) \
                and isinstance(t.comparators[0], ast.Constant) and t.comparators[0].value is None:
            v = self.expr(t.left)
            if v[0] == "optmat":
                return v[1], isinstance(t.ops[0], ast.IsNot)
        raise Reject("%s: condition %s" % (_w(t), ast.unparse(t)))

    def assigns(self, stmts, env):
        saved = self.env
        self.env = dict(env)
        try:
            for s in stmts:
                if not (isinstance(s, ast.Assign) and len(s.targets) == 1 and isinstance(s.targets[0], ast.Name)):
                    raise Reject("%s: only `name = <expr>` is accepted in a branch, got %s" % (_w(s), ast.unparse(s)))
                self.bind(s.targets[0].id, self.expr(s.value), s)
            return self.env
        finally:
            self.env = saved

    def bind(self, name, v, node):
        if name in IMPORTS or name in ("matrices", "attr", "fns", "np") or name in self.objs:
            raise Reject("%s: assignment to %r" % (_w(node), name))
        self.env[name] = v

    def run(self, fn):
        body = list(fn.body)
        if body and isinstance(body[0], ast.Expr) and isinstance(body[0].value, ast.Constant) and isinstance(body[0].value.value, str):
            body = body[1:]
        if [a.arg for a in fn.args.args] != ["directory"] or fn.args.vararg or fn.args.kwarg or fn.args.kwonlyargs or fn.decorator_list:
            raise Reject("%s: signature of load_compat" % _w(fn))
        got = [ast.unparse(s) for s in body[:len(PINNED)]]
        for i, (g, p) in enumerate(zip(got, PINNED)):
            if g != p:
                raise Reject("%s: statement %d of load_compat is no longer the pinned plumbing\n  expected: %s\n  found:    %s" % (_w(body[i]), i + 1, p, g))
        if len(got) != len(PINNED):
            raise Reject("load_compat is shorter than its pinned prefix")
        self.env["ridge"] = ("ridge",)
        returned = False
        for s in body[len(PINNED):]:
            if returned:
                raise Reject("%s: statements after return" % _w(s))
            if isinstance(s, ast.Return):
                if not (isinstance(s.value, ast.Name) and self.objs.get(s.value.id) == "ESN_v3"):
                    raise Reject("%s: load_compat must return the ESN it built" % _w(s))
                returned = True
            elif isinstance(s, ast.Assign) and len(s.targets) == 1 and isinstance(s.targets[0], ast.Name):
                v = s.value
                if isinstance(v, ast.Call) and isinstance(v.func, ast.Name) and v.func.id in KW:
                    self.constructor(s.targets[0].id, v)
                else:
                    self.bind(s.targets[0].id, self.expr(v), s)
            elif isinstance(s, ast.If):
                arr, body_is_some = self.test(s.test)
                refined = {k: (("somemat", arr) if v == ("optmat", arr) else v) for k, v in self.env.items()}
                some_b, none_b = (s.body, s.orelse) if body_is_some else (s.orelse, s.body)
                es = self.assigns(some_b, refined)
                en = self.assigns(none_b, self.env)
                for name in [n for n in es if es[n] is not refined.get(n)] + [n for n in en if en[n] is not self.env.get(n)]:
                    a = es.get(name)
                    b = en.get(name)
                    if a is None or b is None:
                        raise Reject("%s: %r is bound in one branch only" % (_w(s), name))
                    self.env[name] = ("ifsome", arr, a, b)
            else:
                raise Reject("%s: statement is not accepted: %s" % (_w(s), ast.unparse(s).splitlines()[0]))
        if not returned:
            raise Reject("load_compat does not return")
        for c in KW:
            if c not in self.calls:
                raise Reject("load_compat does not build a %s" % c)

    def constructor(self, target, call):
        c = call.func.id
        if c in self.calls:
            raise Reject("%s: a second %s(...)" % (_w(call), c))
        if call.args or any(k.arg is None for k in call.keywords):
            raise Reject("%s: %s must be called with keyword arguments only" % (_w(call), c))
        kws = [k.arg for k in call.keywords]
        if sorted(kws) != sorted(KW[c]) or len(set(kws)) != len(kws):
            raise Reject("%s: keywords of %s are %s, expected %s" % (_w(call), c, sorted(kws), sorted(KW[c])))
        self.calls[c] = {k.arg: (self.expr(k.value), ast.unparse(k.value)) for k in call.keywords}
        if target in self.env or target in self.objs:
            raise Reject("%s: %r is rebound" % (_w(call), target))
        self.objs[target] = c

    # ------------------------------------------------------------------ IR -> Gallina
    def var(self, name, ty):
        if (name, ty) not in SAVED:
            raise Reject("saved field %s is used at type %s" % (name, ty))
        return "(%s s)" % name

    def comp(self, v, ty, where):
        k = v[0]
        if ty == "mat":
            if k == "mat":
                return self.var("m_" + v[1], "list (list F)")
            if k == "somemat":
                return "v_" + v[1]
            if k == "T":
                return "mT (%s)" % self.comp(v[1], "mat", where)
            if k == "cols_from":
                return "map (skipn %d) (%s)" % (v[2], self.comp(v[1], "mat", where))
            if k == "cols_to":
                return "map (firstn %d) (%s)" % (v[2], self.comp(v[1], "mat", where))
        if ty == "optmat":
            if k == "optmat":
                return self.var("m_" + v[1], "option (list (list F))")
            if k == "ifsome" and v[3] == ("zeros_init",) and v[2] != ("zeros_init",):
                return "match %s with Some v_%s => Some (%s) | None => None end" % (
                    self.var("m_" + v[1], "option (list (list F))"), v[1], self.comp(v[2], "mat", where))
        if ty == "bool":
            if k == "bool":
                return "true" if v[1] else "false"
            if k == "attr" and ATTRS[v[1]][0] == "bool" and v[2] == "required":
                return self.var("a_" + v[1], "bool")
            if k == "ifsome":
                return "match %s with Some _ => %s | None => %s end" % (
                    self.var("m_" + v[1], "option (list (list F))"), self.comp(v[2], "bool", where), self.comp(v[3], "bool", where))
        if ty == "nat" and k == "attr" and ATTRS[v[1]][0] == "nat" and v[2] == "required":
            return self.var("a_" + v[1], "nat")
        if ty == "F" and k == "attr" and ATTRS[v[1]][0] == "F":
            if v[2] == "required":
                return self.var("a_" + v[1], "F")
            if v[2] == "zero":
                return "match %s with Some a_ => a_ | None => n0 end" % self.var("a_" + v[1], "option F")
        if ty == "fn" and k == "fn":
            return "match %s with Some h_ => h_ | None => %s end" % (
                self.var("fn_" + v[1], "option (list F -> list F)"), self.var("d_" + v[2], "list F -> list F"))
        raise Reject("%s: a value %s where a %s is expected" % (where, v, ty))

    def emit(self):
        defs, table = [], []
        for c in ("Reservoir", "Ridge", "ESN_v3"):
            for kw, ty in KW[c].items():
                v, src = self.calls[c][kw]
                where = "%s(%s=%s)" % (c, kw, src)
                table.append("     %-10s %-14s <- %s" % (c, kw, src))
                if ty == "uniform":
                    if v != ("str", "uniform"):
                        raise Reject("%s: the noise of a v0.2 ESN is uniform" % where)
                    continue
                if ty == "opaque":
                    if not (v[0] == "attr" and ATTRS[v[1]][0] == "opaque"):
                        raise Reject("%s: expected the saved seed" % where)
                    continue
                if ty == "ridge":
                    if v != ("ridge",):
                        raise Reject("%s: expected the ridge coefficient computed by the pinned statements" % where)
                    continue
                if ty.startswith("obj:"):
                    if v != ("obj", ty[4:]):
                        raise Reject("%s: expected the %s built above" % (where, ty[4:]))
                    continue
                defs.append("(* %s *)\nDefinition %s_%s (s : saved) : %s :=\n  %s." % (where, COQNAME[c], kw, COQTYPE[ty], self.comp(v, ty, where)))
        head = ["(* GENERATED by tools/vlib/py2coq_compat.py from the current source of %s :: load_compat -- DO NOT EDIT." % FILE,
                "   Regenerated by `./check C16` (pregen).  Which field of the saved record `saved` - array (m_<name>: matrices[...], optional ones as",
                "   `option`), attribute (a_<name>) or function (fn_<name>; d_identity / d_tanh are the defaults) - is passed as which keyword:"]
        head += table
        head += ["   Not emitted (checked by the extractor): noise_type='uniform', seed, ridge (pinned statements), the three objects of ESN(...).",
                 "   `A.T` is mT, `A[:, 1:]` is map (skipn 1), `A[:, :1]` is map (firstn 1); the initializer `zeros` (no saved Wout) is None. *)",
                 "From Coq Require Import List Bool Arith ZArith.", "From RV Require Import base.Num base.LA base.GenPrelude.", "Import ListNotations.", "",
                 "Module GenCompat.", "Section Gen.", "Context {F : Type} `{Num F}."]
        head.append("Record saved := mkSaved { %s }." % "; ".join("%s : %s" % p for p in SAVED))
        return "\n".join(head) + "\n\n" + "\n\n".join(defs) + "\n\nEnd Gen.\nArguments mkSaved {F} %s.\nEnd GenCompat.\n" % " ".join("_" for _ in SAVED)


def emit(repo):
    tree = ast.parse(open(os.path.join(repo, FILE)).read())
    fns = [n for n in tree.body if isinstance(n, ast.FunctionDef) and n.name == "load_compat"]
    if len(fns) != 1:
        raise Reject("%s: load_compat not found" % FILE)
    ex = Extractor(tree)
    ex.check_imports()
    ex.run(fns[0])
    return ex.emit()


def pregen():
    """Regenerate coq/gen/Gen_compat.v from the tree under test.  Returns None, or the error text (the tie is broken)."""
    from vlib import core
    path = os.path.join(core.COQ, "gen", "Gen_compat.v")
    os.makedirs(os.path.dirname(path), exist_ok=True)
    err = None
    try:
        text = emit(core.REPO)
    except Reject as ex:
        err = "extraction rejected: %s" % ex
    except Exception:
        err = "extractor exception: " + traceback.format_exc()[-1500:]
    if err is not None:
        text = "(* GENERATED: extraction of load_compat FAILED -- %s *)\nDefinition translation_failed : True := 0.\n" % (
            err.replace("*)", "* )").replace("(*", "( *"))
    old = open(path).read() if os.path.exists(path) else None
    if old != text:               # keep the mtime (and the compiled cone) when nothing changed
        with open(path, "w") as f:
            f.write(text)
    return None if err is None else "load_compat (compat/__init__.py): %s" % err


if __name__ == "__main__":
    import sys
    print(emit(sys.argv[1] if len(sys.argv) > 1 else "/repo"))
