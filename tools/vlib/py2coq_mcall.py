"""py2coq_mcall -- tie (T) for `Model._call` and `Model.call` (see the second block of comments below) of reservoirpy/model.py  ->  coq/gen/Gen_mcall.v   (C07 / C02)

Fail-closed translator of ONE method, `Model._call(self, x, return_states, submodel)`: the forward pass over the nodes followed by the
selection of the states it returns.  Everything outside the fragment below is rejected (`Reject`), and the caller (props/c07.pregen)
then writes a stub that does not compile, so no stale model survives.

Fragment (statement by statement, in continuation style: the statements after an `if` are translated at the end of every branch):
  if submodel is None: submodel = self     first statement, exact text: the method is translated AT `submodel = None`, which is what every
                                           call site passes (pinned: no `._call(` in model.py passes `submodel` / a third argument)
  self._forward(submodel, x)               `py_let r := forward w x in let w := fst r`: `forward` is a Section function (the world-passing
                                           forward pass; proofs/Gen_mcall_eq.v instantiates it with GenDispatch.forward of Gen_dispatch.v,
                                           whose pregen pins `Model._forward = forward`); it may raise, nothing after it then runs
  state = {}                               the empty `sdict`; kind of `state`: map
  state[K] = V                             `sd_set state K V` (kind map only)
  state = V                                kind of `state`: bare
  for v in L: <state[K] = V>*              `pure_for` / `py_for` (when K or V may raise) threading `state`
  if return_states == "all": A elif hasattr(return_states, "__iter__"): B else: C
                                           `match return_states with RsAll => A | RsNames return_states => B | RsDefault => C end`
                                           (exactly these two tests in this order)
  if len(L) > 1: A else: B                 `if Nat.ltb 1 (length L) then A else B`
  return state                             `Val (w, SelMap state)` or `Val (w, SelBare state)` after the kind
Expressions: submodel.nodes, submodel.output_nodes (Section lists, names are node ids), E.name, E.state() (`node_state w E`, the world
AFTER the forward pass), submodel[E] (`model_getitem E`: Model.__getitem__ = get_node, pinned by text, may raise KeyError),
L[0] (`py_getitem L 0`, IndexError on an empty list), loop variables.
"""
import ast
import hashlib
import os

VERSION = "py2coq_mcall 1"
SRC_MODEL = "reservoirpy/model.py"


class Reject(Exception):
    pass


def rej(node, msg):
    raise Reject("%s:%s: %s -- `%s`" % (SRC_MODEL, getattr(node, "lineno", "?"), msg, ast.unparse(node)[:120]))


LISTS = {"nodes": "model_nodes", "output_nodes": "model_output_nodes"}
RESERVED = {"w", "forward", "node_state", "model_nodes", "model_output_nodes", "model_getitem", "datum", "world", "state", "self",
            "submodel", "x", "return_states", "fst", "snd", "length", "tt"}


class Fn:
    def __init__(self):
        self.n = 0
        self.forwarded = False

    def fresh(self, p):
        self.n += 1
        return "%s__%d" % (p, self.n)

    # ---- expressions: -> (prelude [(name, effectful term)], term, type) ; types: node, nodes, names, datum
    def expr(self, e, env):
        if isinstance(e, ast.Name):
            if e.id in env["vars"]:
                return [], env["vars"][e.id][0], env["vars"][e.id][1]
            rej(e, "unknown name")
        if isinstance(e, ast.Attribute) and isinstance(e.value, ast.Name) and e.value.id == "submodel" and e.attr in LISTS:
            return [], LISTS[e.attr], "nodes"
        if isinstance(e, ast.Attribute) and e.attr == "name":
            pre, t, ty = self.expr(e.value, env)
            if ty != "node":
                rej(e, ".name of a non-node")
            return pre, "(node_name %s)" % t, "name"
        if isinstance(e, ast.Call) and isinstance(e.func, ast.Attribute) and e.func.attr == "state" and not e.args and not e.keywords:
            pre, t, ty = self.expr(e.func.value, env)
            if ty != "node":
                rej(e, ".state() of a non-node")
            if not self.forwarded:
                rej(e, "a state is read before the forward pass")
            return pre, "(node_state w %s)" % t, "datum"
        if isinstance(e, ast.Subscript) and isinstance(e.value, ast.Name) and e.value.id == "submodel":
            pre, t, ty = self.expr(e.slice, env)
            if ty != "name":
                rej(e, "submodel[..] by something that is not a node name")
            r = self.fresh("r")
            return pre + [(r, "model_getitem %s" % t)], r, "node"
        if isinstance(e, ast.Subscript) and isinstance(e.slice, ast.Constant) and e.slice.value == 0 and type(e.slice.value) is int:
            pre, t, ty = self.expr(e.value, env)
            if ty != "nodes":
                rej(e, "[0] of something that is not a node list")
            r = self.fresh("ix")
            return pre + [(r, "py_getitem %s 0%%Z" % t)], r, "node"
        rej(e, "expression outside the fragment")

    @staticmethod
    def binds(pre):
        return "".join("py_let %s := %s in\n" % (n, t) for n, t in pre)

    # ---- loop body: only `state[K] = V`; -> (text of the new state, effectful?)
    def loop_body(self, stmts, env):
        out, eff = "", False
        for s in stmts:
            if not (isinstance(s, ast.Assign) and len(s.targets) == 1 and isinstance(s.targets[0], ast.Subscript)
                    and isinstance(s.targets[0].value, ast.Name) and s.targets[0].value.id == "state"):
                rej(s, "loop body statement outside the fragment (only `state[K] = V`)")
            if env["kind"] != "map":
                rej(s, "item store into a state that is not the dict")
            pk, k, tk = self.expr(s.targets[0].slice, env)
            pv, v, tv = self.expr(s.value, env)
            if tk != "name" or tv != "datum":
                rej(s, "state[K] = V needs a node name and a node state")
            pre = pv + pk          # Python evaluates the value first, then the subscript of the target
            eff = eff or bool(pre)
            out += self.binds(pre) + "let state := sd_set state %s %s in\n" % (k, v)
        return out, eff

    # ---- statements, continuation style; every path must end in `return state`
    def block(self, stmts, env):
        if not stmts:
            raise Reject("%s: Model._call: a path ends without `return state`" % SRC_MODEL)
        s, rest = stmts[0], stmts[1:]
        if isinstance(s, ast.Return):
            if rest or not (isinstance(s.value, ast.Name) and s.value.id == "state") or env["kind"] is None:
                rej(s, "only `return state` as the last statement")
            if not self.forwarded:
                rej(s, "return before the forward pass")
            return "Val (w, %s state)" % ("SelMap" if env["kind"] == "map" else "SelBare")
        if isinstance(s, ast.Expr):
            if ast.unparse(s) != "self._forward(submodel, x)" or self.forwarded:
                rej(s, "expression statement outside the fragment (only one `self._forward(submodel, x)`)")
            self.forwarded = True
            r = self.fresh("r")
            return "py_let %s := forward w x in\nlet w := fst %s in\n" % (r, r) + self.block(rest, env)
        if isinstance(s, ast.Assign) and len(s.targets) == 1 and isinstance(s.targets[0], ast.Name) and s.targets[0].id == "state":
            if isinstance(s.value, ast.Dict) and not s.value.keys:
                return "let state := ([] : sdict datum) in\n" + self.block(rest, dict(env, kind="map"))
            pre, t, ty = self.expr(s.value, env)
            if ty != "datum":
                rej(s, "state = V needs a node state")
            return self.binds(pre) + "let state := %s in\n" % t + self.block(rest, dict(env, kind="bare"))
        if isinstance(s, ast.Assign):
            body, eff = self.loop_body([s], env)
            return body + self.block(rest, env)
        if isinstance(s, ast.For):
            if s.orelse or not isinstance(s.target, ast.Name) or s.target.id in RESERVED:
                rej(s, "for loop outside the fragment")
            pre, it, ty = self.expr(s.iter, env)
            if ty not in ("nodes", "names") or pre:
                rej(s, "loop over something that is not a node list / a list of names")
            v = s.target.id + "_" if s.target.id in ("node",) else s.target.id
            env2 = dict(env, vars=dict(env["vars"], **{s.target.id: (v, "node" if ty == "nodes" else "name")}))
            body, eff = self.loop_body(s.body, env2)
            if eff:
                t = "py_let state := py_for %s (fun state %s =>\n%sVal state) state in\n" % (it, v, body)
            else:
                t = "let state := pure_for %s (fun state %s =>\n%sstate) state in\n" % (it, v, body)
            return t + self.block(rest, env)
        if isinstance(s, ast.If):
            test = ast.unparse(s.test)
            if test == "return_states == 'all'":
                if env["rs"] is not None:
                    rej(s, "second case split on return_states")
                if not (len(s.orelse) == 1 and isinstance(s.orelse[0], ast.If) and ast.unparse(s.orelse[0].test) == "hasattr(return_states, '__iter__')"
                        and s.orelse[0].orelse):
                    rej(s, "the case split on return_states must be `== 'all'` / `hasattr(.., '__iter__')` / else")
                e2 = s.orelse[0]
                a = self.block(s.body + rest, dict(env, rs="all"))
                b = self.block(e2.body + rest, dict(env, rs="names", vars=dict(env["vars"], return_states=("return_states", "names"))))
                c = self.block(e2.orelse + rest, dict(env, rs="default"))
                return "match return_states with\n| RsAll =>\n%s\n| RsNames return_states =>\n%s\n| RsDefault =>\n%s\nend" % (a, b, c)
            t = s.test
            if (isinstance(t, ast.Compare) and len(t.ops) == 1 and isinstance(t.ops[0], ast.Gt) and isinstance(t.comparators[0], ast.Constant)
                    and type(t.comparators[0].value) is int and t.comparators[0].value >= 0
                    and isinstance(t.left, ast.Call) and isinstance(t.left.func, ast.Name) and t.left.func.id == "len"
                    and len(t.left.args) == 1 and not t.left.keywords and s.orelse):
                pre, lt, ty = self.expr(t.left.args[0], env)
                if pre or ty not in ("nodes", "names"):
                    rej(s, "len of something that is not a list")
                a = self.block(s.body + rest, env)
                b = self.block(s.orelse + rest, env)
                return "if Nat.ltb %d (length %s) then\n%s\nelse\n%s" % (t.comparators[0].value, lt, a, b)
            rej(s, "test outside the fragment")
        rej(s, "statement outside the fragment")


# ------------------------------------------------------------------------------------------------------------ Model.call
# Second definition of the unit: the OPERATION `Model.call`, in the world-passing monad of base/CtxPrelude.v (`M world A`, the world
# survives a raise; `try: B finally: P` = CtxPrelude.try_finally).  Its callees are Section functions of module GenMCallOp:
#   x, _ = check_xy(self, x, allow_timespans=False, allow_n_sequences=False)      exact text   `bind (check_xy x) (fun x => ..)`
#   if not self._is_initialized: self.initialize(x)                               exact text
#   try: BLOCK finally: SIMPLE*                                                   `bind (try_finally BLOCK (SIMPLE*; ret tt)) (fun state => ..)`
#   the copying return                                                            exact text   `ret (copy_result state)`
# BLOCK (any order and nesting of):
#   with self.with_state(A, stateful=stateful, reset=reset): BLOCK                last statement of its block: `with_state A stateful reset BLOCK`
#   with self.with_feedback(A, stateful=stateful, reset=reset): BLOCK             the same with `with_feedback`
#   self._load_proxys() / self._load_proxys(keep=<bool constant>)                 `bind (load_proxys b) (fun _ => ..)`
#   self._clean_proxys()                                                          `bind clean_proxys (fun _ => ..)`
#   state = self._call(x, return_states)                                          last statement of the innermost block: its value is the block's
CALL_PARAMS = ["self", "x", "forced_feedback", "from_state", "stateful", "reset", "return_states"]
CALL_DEFAULTS = ["None", "None", "True", "False", "None"]
CALL_HEAD = ["x, _ = check_xy(self, x, allow_timespans=False, allow_n_sequences=False)",
             "if not self._is_initialized:\n    self.initialize(x)"]
CALL_TAIL = ["if is_mapping(state):\n    return {name: value.copy() for name, value in state.items()}", "return state.copy()"]
CMS = {"with_state": "from_state", "with_feedback": "forced_feedback"}
Q = "CtxPrelude."


def simple_stmt(s):
    """-> term of type M world unit for a statement without value, or None"""
    if not (isinstance(s, ast.Expr) and isinstance(s.value, ast.Call)):
        return None
    c = s.value
    f = c.func
    if not (isinstance(f, ast.Attribute) and isinstance(f.value, ast.Name) and f.value.id == "self"):
        return None
    if f.attr == "_clean_proxys" and not c.args and not c.keywords:
        return "clean_proxys"
    if f.attr == "_load_proxys" and not c.args:
        if not c.keywords:
            return "(load_proxys false)"
        if len(c.keywords) == 1 and c.keywords[0].arg == "keep" and isinstance(c.keywords[0].value, ast.Constant) and type(c.keywords[0].value.value) is bool:
            return "(load_proxys %s)" % ("true" if c.keywords[0].value.value else "false")
    return None


def ctx_block(stmts):
    if not stmts:
        raise Reject("%s: Model.call: a block ends without `state = self._call(x, return_states)`" % SRC_MODEL)
    s, rest = stmts[0], stmts[1:]
    t = simple_stmt(s)
    if t is not None:
        return "%sbind %s (fun _ =>\n%s)" % (Q, t, ctx_block(rest))
    if isinstance(s, ast.Assign):
        if rest or ast.unparse(s) != "state = self._call(x, return_states)":
            rej(s, "Model.call: only `state = self._call(x, return_states)` as the last statement of the innermost block")
        return "%sbind (_call x return_states) (fun state =>\n%sret state)" % (Q, Q)
    if isinstance(s, ast.With):
        if rest or len(s.items) != 1 or s.items[0].optional_vars is not None:
            rej(s, "Model.call: a `with` must be the last statement of its block and bind nothing")
        c = s.items[0].context_expr
        if not (isinstance(c, ast.Call) and isinstance(c.func, ast.Attribute) and isinstance(c.func.value, ast.Name) and c.func.value.id == "self"
                and c.func.attr in CMS and len(c.args) == 1 and isinstance(c.args[0], ast.Name) and c.args[0].id == CMS[c.func.attr]
                and [(k.arg, ast.unparse(k.value)) for k in c.keywords] == [("stateful", "stateful"), ("reset", "reset")]):
            rej(s, "Model.call: context manager outside the fragment")
        return "%s %s stateful reset\n(%s)" % (c.func.attr, c.args[0].id, ctx_block(s.body))
    rej(s, "Model.call: statement outside the fragment")


def emit_call(src, cls):
    fd = _method(cls, "call")
    a = fd.args
    if [p.arg for p in a.args] != CALL_PARAMS or [ast.unparse(d) for d in a.defaults] != CALL_DEFAULTS or a.vararg or a.kwarg or a.kwonlyargs or a.posonlyargs:
        raise Reject("%s:%d: Model.call: signature must be (%s) with defaults (%s)" % (SRC_MODEL, fd.lineno, ", ".join(CALL_PARAMS), ", ".join(CALL_DEFAULTS)))
    body = _body(fd)
    txt = [ast.unparse(s) for s in body]
    if len(body) != 5 or txt[:2] != CALL_HEAD or txt[3:] != CALL_TAIL:
        raise Reject("%s:%d: Model.call: expected check_xy / first-use initialisation / try-finally / the copying return" % (SRC_MODEL, fd.lineno))
    tr = body[2]
    if not isinstance(tr, ast.Try) or tr.handlers or tr.orelse or not tr.finalbody:
        rej(tr, "Model.call: expected try: .. finally: ..")
    fin = []
    for s in tr.finalbody:
        t = simple_stmt(s)
        if t is None:
            rej(s, "Model.call: statement of the finally block outside the fragment")
        fin.append(t)
    fin_t = "".join("%sbind %s (fun _ =>\n" % (Q, t) for t in fin) + Q + "ret tt" + ")" * len(fin)
    term = ("%sbind (check_xy x) (fun x =>\n%sbind (fun w => (w, %sOk (is_initialized w))) (fun t__1 =>\n"
            "%sbind (if negb t__1 then initialize x else %sret tt) (fun _ =>\n"
            "%sbind (%stry_finally\n(%s)\n(%s)) (fun state =>\n%sret (copy_result state)))))" % (Q, Q, Q, Q, Q, Q, Q, ctx_block(tr.body), fin_t, Q))
    return fd, term, ast.get_source_segment(src, fd)


def _model_class(tree):
    cs = [n for n in tree.body if isinstance(n, ast.ClassDef) and n.name == "Model"]
    if len(cs) != 1:
        raise Reject("%s: %d classes named Model" % (SRC_MODEL, len(cs)))
    return cs[0]


def _method(cls, name):
    ms = [n for n in cls.body if isinstance(n, ast.FunctionDef) and n.name == name]
    if len(ms) != 1:
        raise Reject("%s: Model.%s: %d definitions" % (SRC_MODEL, name, len(ms)))
    if ms[0].decorator_list:
        raise Reject("%s: Model.%s is decorated" % (SRC_MODEL, name))
    return ms[0]


def _body(fd):
    b = fd.body
    if b and isinstance(b[0], ast.Expr) and isinstance(b[0].value, ast.Constant) and isinstance(b[0].value.value, str):
        b = b[1:]
    return b


def emit(repo):
    """-> text of coq/gen/Gen_mcall.v translated from the tree <repo> (raises Reject)"""
    src = open(os.path.join(repo, SRC_MODEL)).read()
    tree = ast.parse(src)
    cls = _model_class(tree)
    fd = _method(cls, "_call")
    a = fd.args
    params = [p.arg for p in a.args]
    if params != ["self", "x", "return_states", "submodel"] or [ast.unparse(d) for d in a.defaults] != ["None", "None", "None"] \
            or a.kwonlyargs or a.posonlyargs:
        raise Reject("%s:%d: Model._call: signature must be (self, x=None, return_states=None, submodel=None, *args, **kwargs)" % (SRC_MODEL, fd.lineno))
    body = _body(fd)
    if not body or ast.unparse(body[0]) != "if submodel is None:\n    submodel = self":
        raise Reject("%s:%d: Model._call must start with `if submodel is None: submodel = self`" % (SRC_MODEL, fd.lineno))
    pins = []
    # every call site leaves `submodel` at None and passes return_states second
    sites = 0
    for n in ast.walk(tree):
        if isinstance(n, ast.Call) and isinstance(n.func, ast.Attribute) and n.func.attr == "_call":
            sites += 1
            if len(n.args) > 2 or any(k.arg != "return_states" for k in n.keywords) or any(isinstance(x, ast.Starred) for x in n.args):
                raise Reject("%s:%d: pin: a call of `._call` passes more than (x, return_states) -- `%s`" % (SRC_MODEL, n.lineno, ast.unparse(n)))
    pins.append("%d call sites of ._call pass (x, return_states) only, so submodel = self" % sites)
    gi = _method(cls, "__getitem__")
    gn = _method(cls, "get_node")
    if [ast.unparse(s) for s in _body(gi)] != ["return self.get_node(item)"]:
        raise Reject("%s:%d: pin: Model.__getitem__ must be `return self.get_node(item)`" % (SRC_MODEL, gi.lineno))
    gtxt = [ast.unparse(s) for s in _body(gn)]
    if len(gtxt) != 1 or not gtxt[0].startswith("if self._node_registry.get(name) is not None:\n    return self._node_registry[name]\nelse:\n    raise KeyError("):
        raise Reject("%s:%d: pin: Model.get_node must return the registered node or raise KeyError" % (SRC_MODEL, gn.lineno))
    pins.append("Model.__getitem__ = get_node = the node registered under the name, else KeyError (model_getitem)")
    for prop, attr in (("nodes", "_nodes"), ("output_nodes", "_outputs")):
        ps = [n for n in cls.body if isinstance(n, ast.FunctionDef) and n.name == prop and any(ast.unparse(d) == "property" for d in n.decorator_list)]
        if len(ps) != 1 or [ast.unparse(s) for s in _body(ps[0])] != ["return self.%s" % attr]:
            raise Reject("%s: pin: Model.%s must be the property returning self.%s" % (SRC_MODEL, prop, attr))
    pins.append("Model.nodes = self._nodes; Model.output_nodes = self._outputs")
    fn = Fn()
    term = fn.block(body[1:], {"kind": None, "rs": None, "vars": {}})
    seg = ast.get_source_segment(src, fd)
    cfd, cterm, cseg = emit_call(src, cls)
    sha = hashlib.sha256((seg + "\n" + cseg).encode()).hexdigest()
    out = ["(* GENERATED by tools/vlib/py2coq_mcall.py (%s) -- DO NOT EDIT." % VERSION,
           "   source: %s :: Model._call (line %d), Model.call (line %d)" % (SRC_MODEL, fd.lineno, cfd.lineno),
           "   sha256 of their source texts: %s" % sha,
           "   pinned: " + "; ".join(pins).replace("*)", "* )"),
           "   Regenerated by `./check C07` (pregen).  Vocabulary: base/PyColl.v, PyColl2.v, PyColl3.v, MCallPrelude.v.",
           "   Translated at submodel = None.  forward w x : `self._forward(submodel, x)` (world after the pass, or the exception; its second",
           "   component is not used); node_state w n : `n.state()`; model_getitem k : `submodel[k]`; model_nodes / model_output_nodes : the",
           "   lists Model.nodes / .output_nodes return (execution order / output nodes); names are node ids.  The result pairs the world",
           "   after the forward pass with what the method returns (a dict of states, or one bare state). *)",
           "From Coq Require Import List Bool Arith ZArith.",
           "From RV Require Import base.PyColl base.PyColl2 base.PyColl3 base.MCallPrelude.",
           "From RV Require base.CtxPrelude.",
           "Import ListNotations.", "",
           "Module GenMCall.",
           "Section Gen.",
           "Variable datum : Type.",
           "Variable world : Type.",
           "Variable node_state : world -> node -> datum.",
           "Variable forward : world -> pyinput datum -> py (world * list datum).",
           "Variable model_nodes model_output_nodes : list node.",
           "Variable model_getitem : node -> py node.", "",
           "(* %s :: Model._call *)" % SRC_MODEL,
           "Definition Model__call (w : world) (x : pyinput datum) (return_states : retsel) : py (world * selstate datum) :=",
           term + ".", "",
           "End Gen.", "End GenMCall.", "",
           "(* Model.call, in the world-passing monad of base/CtxPrelude.v (the world survives a raise).  Section functions, in source order:",
           "   check_xy x : `check_xy(self, x, allow_timespans=False, allow_n_sequences=False)[0]`; is_initialized / initialize : `self._is_initialized` /",
           "   `self.initialize(x)`; with_state f s r B / with_feedback f s r B : `with self.with_state(f, stateful=s, reset=r): B` (resp. with_feedback);",
           "   load_proxys b : `self._load_proxys(keep=b)`; _call : `self._call(x, return_states)` (module GenMCall above); clean_proxys :",
           "   `self._clean_proxys()`; copy_result : the copying return (a dict of copies for a mapping, else a copy; pinned text). *)",
           "Module GenMCallOp.",
           "Section Gen.",
           "Variables world raw xdata fromst fbmap rsel result : Type.",
           "Variable check_xy : raw -> CtxPrelude.M world xdata.",
           "Variable is_initialized : world -> bool.",
           "Variable initialize : xdata -> CtxPrelude.M world unit.",
           "Variable with_state : fromst -> bool -> bool -> CtxPrelude.M world result -> CtxPrelude.M world result.",
           "Variable with_feedback : fbmap -> bool -> bool -> CtxPrelude.M world result -> CtxPrelude.M world result.",
           "Variable load_proxys : bool -> CtxPrelude.M world unit.",
           "Variable _call : xdata -> rsel -> CtxPrelude.M world result.",
           "Variable clean_proxys : CtxPrelude.M world unit.",
           "Variable copy_result : result -> result.", "",
           "(* %s :: Model.call *)" % SRC_MODEL,
           "Definition Model_call (x : raw) (forced_feedback : fbmap) (from_state : fromst) (stateful reset : bool) (return_states : rsel)",
           "  : CtxPrelude.M world result :=",
           cterm + ".", "",
           "End Gen.", "End GenMCallOp.", ""]
    return "\n".join(out)


def pregen():
    """(re)write coq/gen/Gen_mcall.v from the tree under test.  Returns None, or the error text (tie broken)."""
    import traceback
    from vlib import core
    gdir = os.path.join(core.COQ, "gen")
    os.makedirs(gdir, exist_ok=True)
    path = os.path.join(gdir, "Gen_mcall.v")
    err = None
    try:
        text = emit(core.REPO)
    except Reject as ex:
        err = "translation rejected: %s" % ex
    except Exception:
        err = "translator exception: " + traceback.format_exc()[-1500:]
    if err is not None:
        text = "(* GENERATED: translation of %s :: Model._call FAILED -- %s *)\nDefinition translation_failed : True := 0.\n" % (
            SRC_MODEL, err.replace("*)", "* )").replace("(*", "( *"))
    old = open(path).read() if os.path.exists(path) else None
    if old != text:                   # keep the mtime (and the compiled cone) when nothing changed
        with open(path, "w") as f:
            f.write(text)
    return ("unit mcall (Model._call): " + err) if err else None


if __name__ == "__main__":
    import sys
    print(emit(sys.argv[1] if len(sys.argv) > 1 else "/repo"))
