"""py2coq_mrun -- tie (T) for `Model._run` of reservoirpy/model.py  ->  coq/gen/Gen_mrun.v   (C07 / C02)

Fail-closed translator of ONE method, `Model._run(self, X, feedback, from_state, stateful, shift_fb, return_states, submodel)`: the loop
over the timesteps of one sequence.  The method is translated in the world-passing monad of base/CtxPrelude.v (`M world A`, the world
survives a raise; `try: B finally: P` = CtxPrelude.try_finally) over base/MRunPrelude.v; its callees are Section functions of module
GenMRun.  Everything outside the fragment is rejected (`Reject`); the caller (props/c07.pregen) then gets a stub that does not compile.

Head / tail, by exact text:
  if submodel is None: submodel = self                                     translated AT `submodel = None` (pinned: what Model.run passes)
  states = allocate_returned_states(submodel, X, return_states)           `let states := allocate_returned_states X return_states`
  seq = progress(dispatch(X, feedback, shift_fb=shift_fb), <label>, total=len(X))
                                                                           `let seq := dispatch X feedback shift_fb` (pinned: utils.progress
                                                                           returns `it` or `tqdm(it, ..)`, the same items in the same order)
  try: BLOCK finally: SIMPLE*                                              `bind (try_finally BLOCK (SIMPLE*; ret tt)) (fun states => ..)`
  return states
BLOCK, statement by statement (the value of a block is `states`):
  self._load_proxys() / self._load_proxys(keep=<bool>) / self._clean_proxys()          `bind .. (fun _ => ..)`
  with self.with_state(A, stateful=.., reset=..): BLOCK                                 last statement of its block; arguments left out take the
                                                                                        DEFAULTS OF THE SIGNATURE of Model.with_state in the tree
  with self.with_feedback(A, ..): state = submodel._call(x, return_states=return_states)
                                                                                        `bind (with_feedback A s r (_call x return_states)) (fun state => ..)`
  for i, (x, forced_fb, _) in enumerate(seq): BLOCK                                     `bind (py_foldM (py_enumerate seq) (fun states '(i, (x, forced_fb)) => BLOCK) states) (fun states => ..)`
                                                                                        (dispatch yields triples; the third component is dropped)
  if is_mapping(state): for name, value in state.items(): states[name][i, :] = value
  else: states[submodel.output_nodes[0].name][i, :] = state                             `match state with SelMap d => items_for d (set_row ..) | SelBare a => bind output0_name ..`
"""
import ast
import hashlib
import os

from vlib.py2coq_mcall import Reject, rej, _model_class, _method, _body, simple_stmt, SRC_MODEL

VERSION = "py2coq_mrun 1"
Q = "CtxPrelude."
PARAMS = ["self", "X", "feedback", "from_state", "stateful", "shift_fb", "return_states", "submodel"]
DEFAULTS = ["None", "True", "True", "None", "None"]
HEAD = ["if submodel is None:\n    submodel = self", "states = allocate_returned_states(submodel, X, return_states)"]
PROGRESS = ["if VERBOSITY > 0:\n    return tqdm(it, *args, **kwargs)\nelse:\n    return it"]
CALL_TXT = "state = submodel._call(x, return_states=return_states)"
CMS = {"with_state": ("state", {"from_state"}), "with_feedback": ("feedback", {"forced_fb"})}


def cm_call(cls, c, scope):
    """`self.with_state(A, stateful=.., reset=..)` -> 'with_state A s r', missing arguments from the signature in the tree"""
    if not (isinstance(c, ast.Call) and isinstance(c.func, ast.Attribute) and isinstance(c.func.value, ast.Name) and c.func.value.id == "self"
            and c.func.attr in CMS):
        rej(c, "Model._run: context manager outside the fragment")
    first, allowed = CMS[c.func.attr]
    fd = [n for n in cls.body if isinstance(n, ast.FunctionDef) and n.name == c.func.attr]
    if len(fd) != 1:
        rej(c, "Model._run: %d definitions of the context manager" % len(fd))
    a = fd[0].args
    names = [p.arg for p in a.args]
    if names != ["self", first, "stateful", "reset"] or len(a.defaults) != 3 or a.vararg or a.kwarg or a.kwonlyargs or a.posonlyargs:
        rej(fd[0], "Model._run: signature of Model.%s must be (self, %s=None, stateful=.., reset=..)" % (c.func.attr, first))
    vals = {}
    for n, d in zip(names[1:], a.defaults):
        vals[n] = d
    if len(c.args) != 1 or not isinstance(c.args[0], ast.Name) or c.args[0].id not in allowed or c.args[0].id not in scope:
        rej(c, "Model._run: the context manager takes one positional argument among %s" % sorted(allowed))
    for k in c.keywords:
        if k.arg not in ("stateful", "reset") :
            rej(c, "Model._run: keyword of the context manager outside the fragment")
        vals[k.arg] = k.value
    out = []
    for n in ("stateful", "reset"):
        v = vals[n]
        if isinstance(v, ast.Constant) and type(v.value) is bool:
            out.append("true" if v.value else "false")
        elif isinstance(v, ast.Name) and v.id in ("stateful",) and v.id in scope:
            out.append(v.id)
        else:
            rej(c, "Model._run: %s of the context manager is neither a bool constant nor a bool parameter" % n)
    return "%s %s %s %s" % (c.func.attr, c.args[0].id, out[0], out[1])


def store(s, scope):
    """`states[K][i, :] = V` -> (prelude binder or None, K, V)"""
    if not (isinstance(s, ast.Assign) and len(s.targets) == 1):
        rej(s, "Model._run: expected `states[K][i, :] = V`")
    t = s.targets[0]
    if not (isinstance(t, ast.Subscript) and isinstance(t.value, ast.Subscript)
            and ast.unparse(t) == "states[%s][i, :]" % ast.unparse(t.value.slice)):
        rej(s, "Model._run: expected `states[K][i, :] = V`")
    b = t.value
    if not (isinstance(b, ast.Subscript) and isinstance(b.value, ast.Name) and b.value.id == "states"):
        rej(s, "Model._run: expected `states[K][i, :] = V`")
    if "i" not in scope or not isinstance(s.value, ast.Name) or s.value.id not in scope:
        rej(s, "Model._run: row index / value not in scope")
    if isinstance(b.slice, ast.Name) and b.slice.id in scope and b.slice.id == "name":
        return None, "name", s.value.id
    if ast.unparse(b.slice) == "submodel.output_nodes[0].name":
        return "output0_name", "k__0", s.value.id
    rej(s, "Model._run: key of the store outside the fragment")


def block(cls, stmts, scope):
    """-> term of type M world (wlog datum): the statements, then `ret states`"""
    if not stmts:
        return Q + "ret states"
    s, rest = stmts[0], stmts[1:]
    t = simple_stmt(s)
    if t is not None:
        return "%sbind %s (fun _ =>\n%s)" % (Q, t, block(cls, rest, scope))
    if isinstance(s, ast.With):
        if len(s.items) != 1 or s.items[0].optional_vars is not None:
            rej(s, "Model._run: a `with` binds nothing and has one item")
        c = s.items[0].context_expr
        cm = cm_call(cls, c, scope)
        if c.func.attr == "with_state":
            if rest:
                rej(s, "Model._run: `with self.with_state(..)` must be the last statement of its block")
            return "%s\n(%s)" % (cm, block(cls, s.body, scope))
        if len(s.body) != 1 or ast.unparse(s.body[0]) != CALL_TXT or "x" not in scope:
            rej(s, "Model._run: the body of `with self.with_feedback(..)` must be `%s`" % CALL_TXT)
        return "%sbind (%s (_call x return_states)) (fun state =>\n%s)" % (Q, cm, block(cls, rest, scope | {"state"}))
    if isinstance(s, ast.For):
        if s.orelse or ast.unparse(s.target) != "(i, (x, forced_fb, _))" or ast.unparse(s.iter) != "enumerate(seq)" or "i" in scope:
            rej(s, "Model._run: only `for i, (x, forced_fb, _) in enumerate(seq)`")
        body = block(cls, s.body, scope | {"i", "x", "forced_fb"})
        return "%sbind (py_foldM (py_enumerate seq) (fun states '(i, (x, forced_fb)) =>\n%s) states) (fun states =>\n%s)" % (Q, body, block(cls, rest, scope))
    if isinstance(s, ast.If):
        if ast.unparse(s.test) != "is_mapping(state)" or "state" not in scope or len(s.body) != 1 or len(s.orelse) != 1:
            rej(s, "Model._run: only `if is_mapping(state): <loop of stores> else: <store>`")
        f = s.body[0]
        if not (isinstance(f, ast.For) and not f.orelse and ast.unparse(f.target) == "(name, value)" and ast.unparse(f.iter) == "state.items()"
                and len(f.body) == 1):
            rej(f, "Model._run: only `for name, value in state.items(): states[name][i, :] = value`")
        p1, k1, v1 = store(f.body[0], scope | {"name", "value"})
        if p1 is not None or v1 != "value":
            rej(f, "Model._run: the mapping branch must store `value` under `name`")
        p2, k2, v2 = store(s.orelse[0], scope)
        if p2 is None or v2 != "state":
            rej(s.orelse[0], "Model._run: the bare branch must store `state` under the name of the first output node")
        return ("%sbind (match state with\n| SelMap state => %sret (items_for state (fun states name value => set_row states %s i %s) states)\n"
                "| SelBare state => %sbind %s (fun %s => %sret (set_row states %s i %s))\nend) (fun states =>\n%s)"
                % (Q, Q, k1, v1, Q, p2, k2, Q, k2, v2, block(cls, rest, scope)))
    rej(s, "Model._run: statement outside the fragment")


def emit(repo):
    src = open(os.path.join(repo, SRC_MODEL)).read()
    tree = ast.parse(src)
    cls = _model_class(tree)
    fd = _method(cls, "_run")
    a = fd.args
    if [p.arg for p in a.args] != PARAMS or [ast.unparse(d) for d in a.defaults] != DEFAULTS or a.vararg or a.kwarg or a.kwonlyargs or a.posonlyargs:
        raise Reject("%s:%d: Model._run: signature must be (%s) with defaults (%s)" % (SRC_MODEL, fd.lineno, ", ".join(PARAMS), ", ".join(DEFAULTS)))
    body = _body(fd)
    txt = [ast.unparse(s) for s in body]
    if len(body) != 5 or txt[:2] != HEAD or txt[4] != "return states":
        raise Reject("%s:%d: Model._run: expected submodel default / allocate_returned_states / seq = progress(dispatch(..)) / try-finally / return states" % (SRC_MODEL, fd.lineno))
    sq = body[2]
    if not (isinstance(sq, ast.Assign) and ast.unparse(sq.targets[0]) == "seq" and isinstance(sq.value, ast.Call) and ast.unparse(sq.value.func) == "progress"
            and len(sq.value.args) == 2 and ast.unparse(sq.value.args[0]) == "dispatch(X, feedback, shift_fb=shift_fb)"
            and isinstance(sq.value.args[1], ast.JoinedStr)
            and [(k.arg, ast.unparse(k.value)) for k in sq.value.keywords] == [("total", "len(X)")]):
        rej(sq, "Model._run: expected `seq = progress(dispatch(X, feedback, shift_fb=shift_fb), <label>, total=len(X))`")
    pins = []
    # progress is the identity on the items
    usrc = open(os.path.join(repo, "reservoirpy/utils/__init__.py")).read()
    ps = [n for n in ast.parse(usrc).body if isinstance(n, ast.FunctionDef) and n.name == "progress"]
    if len(ps) != 1 or [p.arg for p in ps[0].args.args] != ["it"] or [ast.unparse(s) for s in _body(ps[0])] != PROGRESS:
        raise Reject("reservoirpy/utils/__init__.py: pin: progress(it, ..) must return `it` or `tqdm(it, ..)`")
    imp = [n for n in tree.body if isinstance(n, ast.ImportFrom) and any(al.name == "progress" and al.asname is None for al in n.names)]
    if len(imp) != 1 or imp[0].module != "utils" or imp[0].level != 1:
        raise Reject("%s: pin: `progress` must be imported from .utils" % SRC_MODEL)
    pins.append("utils.progress(it, ..) = it or tqdm(it, ..): the same items in the same order")
    sites = 0
    for n in ast.walk(_method(cls, "run")):
        if isinstance(n, ast.Call) and isinstance(n.func, ast.Attribute) and n.func.attr == "_run":
            sites += 1
            if len(n.args) > 6 or any(k.arg == "submodel" or k.arg is None for k in n.keywords) or any(isinstance(x, ast.Starred) for x in n.args):
                raise Reject("%s:%d: pin: the call of `._run` in Model.run passes submodel -- `%s`" % (SRC_MODEL, n.lineno, ast.unparse(n)[:100]))
    if sites != 1:
        raise Reject("%s: pin: Model.run must call `._run` once (found %d)" % (SRC_MODEL, sites))
    pins.append("the call of ._run in Model.run leaves submodel at None, so submodel = self (run_submodel, which passes a sub-model, is outside this tie)")
    tr = body[3]
    if not isinstance(tr, ast.Try) or tr.handlers or tr.orelse or not tr.finalbody:
        rej(tr, "Model._run: expected try: .. finally: ..")
    fin = []
    for s in tr.finalbody:
        t = simple_stmt(s)
        if t is None:
            rej(s, "Model._run: statement of the finally block outside the fragment")
        fin.append(t)
    fin_t = "".join("%sbind %s (fun _ =>\n" % (Q, t) for t in fin) + Q + "ret tt" + ")" * len(fin)
    scope = frozenset({"from_state", "stateful", "return_states", "seq", "states"})
    term = ("let states := allocate_returned_states X return_states in\nlet seq := dispatch X feedback shift_fb in\n"
            "%sbind (%stry_finally\n(%s)\n(%s)) (fun states =>\n%sret states)" % (Q, Q, block(cls, tr.body, scope), fin_t, Q))
    seg = ast.get_source_segment(src, fd)
    out = ["(* GENERATED by tools/vlib/py2coq_mrun.py (%s) -- DO NOT EDIT." % VERSION,
           "   source: %s :: Model._run (line %d)" % (SRC_MODEL, fd.lineno),
           "   sha256 of its source text: %s" % hashlib.sha256(seg.encode()).hexdigest(),
           "   pinned: " + "; ".join(pins).replace("*)", "* )"),
           "   Regenerated by `./check C07` (pregen).  Vocabulary: base/CtxPrelude.v, MCallPrelude.v, MRunPrelude.v.",
           "   Translated at submodel = None.  Section functions, in source order: allocate_returned_states X rs : the arrays the rows are written",
           "   to (a write log, MRunPrelude.wlog); dispatch X fb shift : the items `dispatch(X, feedback, shift_fb=shift_fb)` yields, without their",
           "   third component; with_state f s r B / with_feedback f s r B : the context managers (arguments left out in the source take the defaults of",
           "   their signatures in the tree); load_proxys b : `self._load_proxys(keep=b)`; _call x rs : `submodel._call(x, return_states=rs)` (module",
           "   GenMCall of Gen_mcall.v); output0_name : `submodel.output_nodes[0].name`; clean_proxys : `self._clean_proxys()`. *)",
           "From Coq Require Import List Bool Arith.",
           "From RV Require Import base.PyColl base.MCallPrelude base.MRunPrelude.",
           "From RV Require base.CtxPrelude.",
           "Import ListNotations.", "",
           "Module GenMRun.",
           "Section Gen.",
           "Variables world datum xseq fbseq xdata fbmap fromst rsel : Type.",
           "Variable allocate_returned_states : xseq -> rsel -> wlog datum.",
           "Variable dispatch : xseq -> fbseq -> bool -> list (xdata * fbmap).",
           "Variable with_state : fromst -> bool -> bool -> CtxPrelude.M world (wlog datum) -> CtxPrelude.M world (wlog datum).",
           "Variable with_feedback : fbmap -> bool -> bool -> CtxPrelude.M world (selstate datum) -> CtxPrelude.M world (selstate datum).",
           "Variable load_proxys : bool -> CtxPrelude.M world unit.",
           "Variable _call : xdata -> rsel -> CtxPrelude.M world (selstate datum).",
           "Variable output0_name : CtxPrelude.M world node.",
           "Variable clean_proxys : CtxPrelude.M world unit.", "",
           "(* %s :: Model._run *)" % SRC_MODEL,
           "Definition Model__run (X : xseq) (feedback : fbseq) (from_state : fromst) (stateful shift_fb : bool) (return_states : rsel)",
           "  : CtxPrelude.M world (wlog datum) :=",
           term + ".", "",
           "End Gen.", "End GenMRun.", ""]
    return "\n".join(out)


def pregen():
    """(re)write coq/gen/Gen_mrun.v from the tree under test.  Returns None, or the error text (tie broken)."""
    import traceback
    from vlib import core
    gdir = os.path.join(core.COQ, "gen")
    os.makedirs(gdir, exist_ok=True)
    path = os.path.join(gdir, "Gen_mrun.v")
    err = None
    try:
        text = emit(core.REPO)
    except Reject as ex:
        err = "translation rejected: %s" % ex
    except Exception:
        err = "translator exception: " + traceback.format_exc()[-1500:]
    if err is not None:
        text = "(* GENERATED: translation of %s :: Model._run FAILED -- %s *)\nDefinition translation_failed : True := 0.\n" % (
            SRC_MODEL, err.replace("*)", "* )").replace("(*", "( *"))
    old = open(path).read() if os.path.exists(path) else None
    if old != text:                   # keep the mtime (and the compiled cone) when nothing changed
        with open(path, "w") as f:
            f.write(text)
    return ("unit mrun (Model._run): " + err) if err else None


if __name__ == "__main__":
    import sys
    print(emit(sys.argv[1] if len(sys.argv) > 1 else "/repo"))
