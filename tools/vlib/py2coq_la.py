"""Fail-closed translator for the numeric kernels of reservoirpy (numpy linear algebra on 1-D/2-D arrays) -> Gallina.

Tie (T) of DESIGN §6 for: nodes/reservoirs/base.py (reservoir_kernel, forward_internal, forward_external), utils/random.py
(noise), nodes/readouts/base.py (readout_forward, _assemble_wout, _split_and_save_wout, _compute_error,
_prepare_inputs_for_learning), nodes/readouts/rls.py (_rls, train), nodes/readouts/lms.py (_lms, train),
nodes/readouts/ridge.py (_solve_ridge, _accumulate, partial_backward, backward).  The *units* (which functions, the kinds of
their parameters and of the attributes they read) are declared in vlib/la_specs.py.

The translator parses the CURRENT source with `ast`, types every expression with a small kind system and emits one Coq
`Section` per unit (and per variant), with one `Definition` per Python function, over `{F} `{Num F}` and the vocabulary of
base/LA.v + base/GenPrelude.v.  It REJECTS (returns an error, the tie is then reported broken) everything it does not
understand: unknown numpy function, statement shape, attribute, broadcast it cannot type, in-place update of an aliased array...

Kinds            S scalar | B bool | N nat (a dimension) | V(o) vector, o in col (n,1) / row (1,n) / flat (n,) -- all `list F` |
                 M matrix `list (list F)` | FN vector -> vector function | OPQ opaque (never computed with) | T(k1..kn) tuple
Orientation lives only in the translator: `.T`, `.reshape(-1, 1)`, `[np.newaxis, :]` are no-ops on `list F`, `@` / np.dot select
dot | mv | vmm | mmul | outer from the orientations; `A.T` on a matrix is `mT A`.
Object fields  (`node.W`, `node.state()`, buffers) are Section Variables `o_<name>`; `set_param` / `+=` on a buffer alias
rebind them, and a function that writes fields returns them after its return value, in first-write order.
"""
import ast
import os
from fractions import Fraction


class Reject(Exception):
    pass


S, B, N, M, FN, OPQ, NONE = ("S",), ("B",), ("N",), ("M",), ("FN",), ("OPQ",), ("NONE",)


def V(o):
    return ("V", o)


def T(*ks):
    return ("T",) + tuple(ks)


RESERVED = set("""dot vzip vadd vsub vmul vscale vopp vzeros vones vsum mv vm transpose mm madd msub mscale outer mzeros unitv eye vget
mget map fold_left length hd tl cons nil fst snd if then else let in match with end fun forall exists Type Prop Set nat list bool true
false n0 n1 nadd nsub nmul ndiv nopp nltb nleb nofZ nabs mcols mT mmul vmm vdiv mdiv add_bias_row add_bias_mat roll1 set_row0 take_every vset_prefix vset_from gather_prod dq_appendleft dq_pop concat vupd mupd mupd_row vslice_sum for_range skipn firstn nth seq Some None andb orb negb F H
solve S O""".split())


def _where(node):
    return "line %s" % getattr(node, "lineno", "?")


def _strip_doc(body):
    if body and isinstance(body[0], ast.Expr) and isinstance(body[0].value, ast.Constant) and isinstance(body[0].value.value, str):
        return body[1:]
    return body


def dump_nodoc(fn):
    fn = ast.parse(ast.unparse(fn)).body[0]
    fn.body = _strip_doc(fn.body)
    return ast.unparse(fn)


class Val:
    """A typed Coq term.  fresh: the numpy value is a new array (in-place update allowed); alias: name of the buffer it aliases."""
    def __init__(self, kind, text, fresh=False, alias=None, items=None):
        self.kind, self.text, self.fresh, self.alias, self.items = kind, text, fresh, alias, items

    def p(self):        # parenthesised when not atomic
        t = self.text
        return t if (t.replace("_", "a").replace("'", "a").isalnum()) else "(" + t + ")"


def const_text(v, node):
    if isinstance(v, bool) or not isinstance(v, (int, float)):
        raise Reject("%s: constant %r is not a number" % (_where(node), v))
    f = Fraction(v)
    if f == 0:
        return "n0"
    if f == 1:
        return "n1"
    if f.denominator == 1:
        return "(nofZ (%d))" % f.numerator
    return "(ndiv (nofZ (%d)) (nofZ (%d)))" % (f.numerator, f.denominator)


SOPS = {ast.Add: "nadd", ast.Sub: "nsub", ast.Mult: "nmul", ast.Div: "ndiv"}
VOPS = {ast.Add: "vadd", ast.Sub: "vsub", ast.Mult: "vmul", ast.Div: "vdiv"}
MOPS = {ast.Add: "madd", ast.Sub: "msub"}


class FnTr:
    """Translation of one function."""

    def __init__(self, unit, fspec, fndef, summaries):
        self.u, self.fs, self.fn, self.summaries = unit, fspec, fndef, summaries
        self.reads, self.writes = set(), []
        self.env = {}            # python local -> Val
        self.fields = {}         # field -> number of times it was rebound so far (absent: still the Section variable)
        self.fver = 0
        self.noise_i = 0
        self.used_draws = frozenset()
        self.len_of = {}         # nat local -> the vector whose length it is
        self.lb = {}             # loop variable -> Coq text of its lower bound
        self.loop_state = set()  # arrays being filled by the enclosing for loop (in-place writes allowed)
        self.tmp = 0

    # ------------------------------------------------------------------ helpers
    def obj_name(self, node):
        return isinstance(node, ast.Name) and node.id in self.fs.get("objects", [])

    def field(self, name, node):
        spec = self.u["fields"]
        if name not in spec:
            raise Reject("%s: unknown attribute / buffer %r of the node object" % (_where(node), name))
        if name not in self.fields:
            self.reads.add(name)
        k = spec[name]
        return Val(k, "o_" + name, fresh=False, alias=name if (name in self.u.get("buffers", []) or k == ("DEQUE",)) else None)

    def rebound(self, name):
        self.fver += 1
        self.fields[name] = self.fver

    def write_field(self, name, val, node):
        spec = self.u["fields"]
        if name not in spec:
            raise Reject("%s: set_param / buffer update of undeclared field %r" % (_where(node), name))
        if not kind_compat(spec[name], val.kind):
            raise Reject("%s: field %r of kind %s receives a value of kind %s" % (_where(node), name, spec[name], val.kind))
        if name not in self.writes:
            self.writes.append(name)

    # ------------------------------------------------------------------ expressions
    def expr(self, e):
        m = getattr(self, "e_" + type(e).__name__, None)
        if m is None:
            raise Reject("%s: expression %s is not accepted" % (_where(e), type(e).__name__))
        return m(e)

    def nat_expr(self, e, trunc_ok=False):
        """An index / bound expression over naturals.  Python integers may go negative (and a negative index counts from the end);
        a subtraction is accepted only where it provably stays >= 0 (loop variable minus its lower bound / a smaller literal), or in a
        range() bound, where truncation at 0 gives the same (empty) range."""
        if isinstance(e, ast.Constant) and isinstance(e.value, int) and not isinstance(e.value, bool) and e.value >= 0:
            return Val(N, str(e.value))
        if isinstance(e, ast.Name):
            v = self.expr(e)
            if v.kind == N:
                return v
            raise Reject("%s: %r is not an integer here" % (_where(e), e.id))
        if isinstance(e, ast.BinOp) and isinstance(e.op, ast.Add):
            a, b = self.nat_expr(e.left, trunc_ok), self.nat_expr(e.right, trunc_ok)
            return Val(N, "%s + %s" % (a.p(), b.p()))
        if isinstance(e, ast.BinOp) and isinstance(e.op, ast.Sub):
            a, b = self.nat_expr(e.left, trunc_ok), self.nat_expr(e.right, trunc_ok)
            ok = trunc_ok
            if isinstance(e.left, ast.Name) and e.left.id in self.lb:
                lo = self.lb[e.left.id]
                ok = ok or lo == b.text or (lo.isdigit() and b.text.isdigit() and int(lo) >= int(b.text))
            if not ok:
                raise Reject("%s: integer subtraction %s may go negative" % (_where(e), ast.unparse(e)))
            return Val(N, "%s - %s" % (a.p(), b.p()))
        v = self.expr(e)
        if v.kind == N:
            return v
        raise Reject("%s: integer expression %s is not accepted" % (_where(e), ast.unparse(e)))

    def e_BoolOp(self, e):
        vals = [self.expr(v) for v in e.values]
        if any(v.kind != B for v in vals):
            raise Reject("%s: boolean operator on non-boolean operands" % _where(e))
        op = "andb" if isinstance(e.op, ast.And) else "orb"
        t = vals[0].p()
        for v in vals[1:]:
            t = "(%s %s %s)" % (op, t, v.p())
        return Val(B, t)

    def e_Constant(self, e):
        if e.value is None:
            return Val(NONE, "tt")
        if isinstance(e.value, bool):
            return Val(B, "true" if e.value else "false")
        return Val(S, const_text(e.value, e))

    def e_Name(self, e):
        if e.id in self.env:
            v = self.env[e.id]
            return Val(v.kind, v.text, fresh=False, alias=v.alias, items=v.items)
        g = self.u.get("globals", {})
        if e.id in g:
            return Val(g[e.id], "tt")
        raise Reject("%s: unknown name %r" % (_where(e), e.id))

    def e_UnaryOp(self, e):
        v = self.expr(e.operand)
        if isinstance(e.op, ast.USub):
            if v.kind == S:
                return Val(S, "nopp %s" % v.p(), True)
            if v.kind[0] == "V":
                return Val(v.kind, "vopp %s" % v.p(), True)
            if v.kind == M:
                return Val(M, "map vopp %s" % v.p(), True)
        if isinstance(e.op, ast.Not) and v.kind == B:
            if v.text in ("true", "false"):
                return Val(B, "false" if v.text == "true" else "true")
            return Val(B, "negb %s" % v.p())
        raise Reject("%s: unary operator on kind %s" % (_where(e), v.kind))

    def e_BinOp(self, e):
        if isinstance(e.op, ast.MatMult):
            return self.matmul(self.expr(e.left), self.expr(e.right), e)
        if isinstance(e.op, ast.Pow):
            a = self.expr(e.left)
            if isinstance(e.right, ast.Constant) and e.right.value == 2 and a.kind == S:
                return Val(S, "nmul %s %s" % (a.p(), a.p()), True)
            if isinstance(e.right, ast.Constant) and e.right.value == 2 and a.kind[0] == "V":
                return Val(a.kind, "vmul %s %s" % (a.p(), a.p()), True)
            raise Reject("%s: ** is accepted only as scalar ** 2" % _where(e))
        if type(e.op) not in SOPS:
            raise Reject("%s: operator %s is not accepted" % (_where(e), type(e.op).__name__))
        return self.arith(type(e.op), self.expr(e.left), self.expr(e.right), e)

    def arith(self, op, a, b, node):
        ka, kb = a.kind, b.kind
        if ka == N and kb == N and op is ast.Add:
            return Val(N, "%s + %s" % (a.p(), b.p()))
        if ka == N and kb == S and b.text == "n1" and op is ast.Add:
            return Val(N, "S %s" % a.p())
        if ka == S and kb == S:
            return Val(S, "%s %s %s" % (SOPS[op], a.p(), b.p()), True)
        if ka == S and kb[0] == "V":
            if op is ast.Mult:
                return Val(kb, "vscale %s %s" % (a.p(), b.p()), True)
            return Val(kb, "map (fun t_ => %s %s t_) %s" % (SOPS[op], a.p(), b.p()), True)
        if ka[0] == "V" and kb == S:
            return Val(ka, "map (fun t_ => %s t_ %s) %s" % (SOPS[op], b.p(), a.p()), True)
        if ka[0] == "V" and kb[0] == "V":
            oa, ob = ka[1], kb[1]
            if oa == ob:
                o = oa
            elif "flat" in (oa, ob) and "row" in (oa, ob):
                o = "row"                      # (n,) with (1,n) broadcasts to (1,n)
            else:
                raise Reject("%s: element-wise operation between a %s and a %s vector would broadcast to a matrix" % (_where(node), oa, ob))
            return Val(V(o), "%s %s %s" % (VOPS[op], a.p(), b.p()), True)
        if ka == M and kb == M:
            if op in MOPS:
                return Val(M, "%s %s %s" % (MOPS[op], a.p(), b.p()), True)
            raise Reject("%s: element-wise %s between matrices is not accepted" % (_where(node), op.__name__))
        if ka == S and kb == M and op is ast.Mult:
            return Val(M, "mscale %s %s" % (a.p(), b.p()), True)
        if ka == M and kb == S:
            return Val(M, "map (map (fun t_ => %s t_ %s)) %s" % (SOPS[op], b.p(), a.p()), True)
        raise Reject("%s: operator %s between kinds %s and %s" % (_where(node), op.__name__, ka, kb))

    def matmul(self, a, b, node):
        ka, kb = a.kind, b.kind
        if ka == M and kb[0] == "V" and kb[1] in ("col", "flat"):
            return Val(V(kb[1]), "mv %s %s" % (a.p(), b.p()), True)
        if ka[0] == "V" and ka[1] in ("row", "flat") and kb == M:
            return Val(V(ka[1]), "vmm %s %s" % (a.p(), b.p()), True)
        if ka == M and kb == M:
            return Val(M, "mmul %s %s" % (a.p(), b.p()), True)
        if ka[0] == "V" and kb[0] == "V":
            if ka[1] in ("row", "flat") and kb[1] in ("col", "flat"):
                return Val(S, "dot %s %s" % (a.p(), b.p()), True)       # a (1,1) result; squeeze()/float() are the identity on it
            if ka[1] == "col" and kb[1] == "row":
                return Val(M, "outer %s %s" % (a.p(), b.p()), True)
        raise Reject("%s: matrix product between kinds %s and %s" % (_where(node), ka, kb))

    def e_Attribute(self, e):
        if self.obj_name(e.value):
            return self.field(e.attr, e)
        v = self.expr(e.value)
        if e.attr == "T":
            if v.kind[0] == "V":
                o = {"col": "row", "row": "col", "flat": "flat"}[v.kind[1]]
                return Val(V(o), v.text, v.fresh, v.alias)
            if v.kind == M:
                return Val(M, "mT %s" % v.p(), False)
            if v.kind == S:
                return v
        if e.attr == "shape" and v.kind[0] == "V":
            return Val(("SHAPE",), "length %s" % v.p())
        if e.attr == "shape" and v.kind == M:
            return Val(("SHAPE2",), v.p())
        raise Reject("%s: attribute .%s of a value of kind %s" % (_where(e), e.attr, v.kind))

    def e_Subscript(self, e):
        sl = e.slice
        if isinstance(e.value, ast.Attribute) and isinstance(e.value.value, ast.Name) and e.value.value.id == "np" and e.value.attr == "r_":
            if isinstance(sl, ast.Tuple) and len(sl.elts) == 2:
                a, b = self.expr(sl.elts[0]), self.expr(sl.elts[1])
                if a.kind == V("row") and b.kind == M:
                    return Val(M, "%s :: %s" % (a.p(), b.p()), True)
            raise Reject("%s: np.r_ is accepted only as np.r_[<row vector>, <matrix>]" % _where(e))
        v = self.expr(e.value)
        txt = ast.unparse(sl)
        if txt.startswith("(") and txt.endswith(")"):
            txt = txt[1:-1]
        if self.fs.get("indexing"):       # element access by integer index (dataset loops)
            if v.kind[0] == "V" and not isinstance(sl, (ast.Slice, ast.Tuple)):
                i = self.nat_expr(sl)
                return Val(S, "nth %s %s n0" % (i.p(), v.p()))
            if v.kind == M and not isinstance(sl, (ast.Slice, ast.Tuple)):
                i = self.nat_expr(sl)
                return Val(V("flat"), "nth %s %s []" % (i.p(), v.p()))
            if v.kind == V("col") and isinstance(sl, ast.Tuple) and len(sl.elts) == 2 and ast.unparse(sl.elts[1]) == ":" \
                    and isinstance(sl.elts[0], ast.Slice) and sl.elts[0].step is None and sl.elts[0].upper is None and sl.elts[0].lower is not None:
                i = self.nat_expr(sl.elts[0].lower)
                return Val(V("col"), "skipn %s %s" % (i.p(), v.p()), False)
        if v.kind == M and txt == "(slice(1, None, None), slice(None, None, None))" or v.kind == M and txt == "1:, :":
            return Val(M, "tl %s" % v.p(), False)
        if v.kind == M and txt == "0, :":
            return Val(V("flat"), "hd [] %s" % v.p(), False)
        if v.kind == M and isinstance(sl, ast.Tuple) and len(sl.elts) == 2 and ast.unparse(sl.elts[1]) == ":" \
                and isinstance(sl.elts[0], ast.Slice) and sl.elts[0].lower is None and sl.elts[0].upper is None and sl.elts[0].step is not None:
            st = self.expr(sl.elts[0].step)
            if st.kind == N:
                return Val(M, "take_every %s %s" % (st.p(), v.p()), False)
        if v.kind[0] == "V" and isinstance(sl, ast.Call) and isinstance(sl.func, ast.Attribute) and sl.func.attr == "astype" \
                and [ast.unparse(a_) for a_ in sl.args] == ["int"] and not sl.keywords:
            ix = self.expr(sl.func.value)
            if ix.kind == ("IDX",):
                return Val(("GATHER", v.p(), ix.p()), "")
        if v.kind == ("SHAPE",) and txt == "0":
            return Val(N, v.text)
        if v.kind == V("flat") and txt == "np.newaxis, :":
            return Val(V("row"), v.text, v.fresh, v.alias)
        if v.kind == ("SHAPE2",) and txt == "1":
            return Val(N, "mcols %s" % v.text)
        if v.kind == ("SHAPE2",) and txt == "0":
            return Val(N, "length %s" % v.text)
        raise Reject("%s: subscript [%s] on kind %s" % (_where(e), txt, v.kind))

    def e_Tuple(self, e):
        items = [self.expr(x) for x in e.elts]
        return Val(T(*[i.kind for i in items]), "(" + ", ".join(i.text for i in items) + ")", True, items=items)

    def e_Compare(self, e):
        if ast.unparse(e) in self.u.get("bool_exprs", {}):       # a test on an opaque attribute, declared as a boolean field
            return self.field(self.u["bool_exprs"][ast.unparse(e)], e)
        if len(e.ops) == 2:       # a < b < c
            l = self.e_Compare(ast.Compare(left=e.left, ops=[e.ops[0]], comparators=[e.comparators[0]]))
            r = self.e_Compare(ast.Compare(left=e.comparators[0], ops=[e.ops[1]], comparators=[e.comparators[1]]))
            return Val(B, "(andb %s %s)" % (l.p(), r.p()))
        if len(e.ops) != 1:
            raise Reject("%s: chained comparison" % _where(e))
        op, right = e.ops[0], e.comparators[0]
        if isinstance(op, (ast.Is, ast.IsNot)) and isinstance(right, ast.Constant) and right.value is None:
            v = self.expr(e.left)
            isnone = v.kind == NONE
            if v.kind == ("OPT",):
                t = "%s" % v.text           # a boolean section variable 'is given'
                return Val(B, ("negb %s" % t) if isinstance(op, ast.Is) else t)
            return Val(B, "true" if (isnone == isinstance(op, ast.Is)) else "false")
        a, b = self.expr(e.left), self.expr(right)
        if a.kind == N and isinstance(op, ast.Gt) and b.text == "n0":
            return Val(B, "0 <? %s" % a.p())
        if a.kind == S and b.kind == S:
            if isinstance(op, ast.Gt):
                return Val(B, "nltb %s %s" % (b.p(), a.p()))
            if isinstance(op, ast.Lt):
                return Val(B, "nltb %s %s" % (a.p(), b.p()))
            if isinstance(op, ast.GtE):
                return Val(B, "nleb %s %s" % (b.p(), a.p()))
            if isinstance(op, ast.LtE):
                return Val(B, "nleb %s %s" % (a.p(), b.p()))
        raise Reject("%s: comparison %s between kinds %s and %s" % (_where(e), type(op).__name__, a.kind, b.kind))

    def kw(self, call, allowed):
        out = {}
        for k in call.keywords:
            if k.arg is None or k.arg not in allowed:
                raise Reject("%s: unexpected keyword argument %r" % (_where(call), k.arg))
            if k.arg == "dtype" and ast.unparse(k.value) not in self.u.get("float_dtypes", ["global_dtype", "np.float64", "float"]):
                raise Reject("%s: dtype=%s is not known to be float64 (the model computes over a field)" % (_where(call), ast.unparse(k.value)))
            out[k.arg] = k.value
        return out

    def e_Call(self, e):
        f = e.func
        if ast.unparse(e) in self.u.get("draw_exprs", {}):      # the generator draw inside noise(): an oracle value
            return Val(V("any"), self.u["draw_exprs"][ast.unparse(e)], True)
        # ---- np.<fn>(...)
        if isinstance(f, ast.Attribute) and isinstance(f.value, ast.Name) and f.value.id in ("np", "linalg"):
            return self.np_call(f.value.id, f.attr, e)
        # ---- methods of the node object
        if isinstance(f, ast.Attribute) and self.obj_name(f.value):
            if f.attr in self.u.get("methods", {}) and not e.args and not e.keywords:
                return self.field(self.u["methods"][f.attr], e)
            if f.attr == "get_buffer" and len(e.args) == 1 and isinstance(e.args[0], ast.Constant) and not e.keywords:
                name = e.args[0].value
                if name not in self.u.get("buffers", []):
                    raise Reject("%s: unknown buffer %r" % (_where(e), name))
                return self.field(name, e)
            raise Reject("%s: method .%s() of the node object is not accepted here" % (_where(e), f.attr))
        # ---- array methods
        if isinstance(f, ast.Attribute):
            v = self.expr(f.value)
            a = f.attr
            if v.kind == ("DEQUE",) and v.alias is not None:
                if a == "appendleft" and len(e.args) == 1 and not e.keywords:
                    x = self.expr(e.args[0])
                    if x.kind[0] != "V":
                        raise Reject("%s: appendleft of kind %s" % (_where(e), x.kind))
                    return Val(("DQ_APPEND", v.alias), "dq_appendleft %s %s %s" % (self.u["deque_maxlen"][v.alias] if self.u["deque_maxlen"][v.alias].isalnum() else "(" + self.u["deque_maxlen"][v.alias] + ")", v.p(), x.p()))
                if a == "pop" and not e.args and not e.keywords:
                    return Val(("DQ_POP", v.alias), "dq_pop %s" % v.p())
                raise Reject("%s: deque method .%s" % (_where(e), a))
            if a == "reshape" and not e.keywords:
                args = [ast.unparse(x) for x in e.args]
                if v.kind[0] == "V" and args == ["-1", "1"]:
                    return Val(V("col"), v.text, v.fresh, v.alias)
                if v.kind[0] == "V" and args == ["1", "-1"]:
                    return Val(V("row"), v.text, v.fresh, v.alias)
                raise Reject("%s: reshape(%s) on kind %s" % (_where(e), ", ".join(args), v.kind))
            if a == "squeeze" and not e.args and not e.keywords and v.kind == S:
                return v
            if a == "astype" and len(e.args) == 1:
                self.kw(e, {"copy"})
                if ast.unparse(e.args[0]) in self.u.get("float_dtypes", ["global_dtype"]):
                    return Val(v.kind, v.text, v.fresh, v.alias)
                raise Reject("%s: astype(%s)" % (_where(e), ast.unparse(e.args[0])))
            if a == "dot" and len(e.args) == 1 and not e.keywords:
                return self.matmul(v, self.expr(e.args[0]), e)
            raise Reject("%s: array method .%s()" % (_where(e), a))
        if not isinstance(f, ast.Name):
            raise Reject("%s: call of %s" % (_where(e), ast.unparse(f)))
        name = f.id
        # ---- builtins
        if name == "float" and len(e.args) == 1 and not e.keywords:
            v = self.expr(e.args[0])
            if v.kind == S:
                return v
            raise Reject("%s: float() of kind %s" % (_where(e), v.kind))
        if name == "len" and len(e.args) == 1 and not e.keywords:
            v = self.expr(e.args[0])
            if v.kind in (("LISTV",), M):
                return Val(N, "length %s" % v.p())
            raise Reject("%s: len() of kind %s" % (_where(e), v.kind))
        if name == "abs" and len(e.args) == 1 and not e.keywords:
            v = self.expr(e.args[0])
            if v.kind == S:
                return Val(S, "nabs %s" % v.p(), True)
            raise Reject("%s: abs() of kind %s" % (_where(e), v.kind))
        if name == "next" and len(e.args) == 1 and not e.keywords:
            v = self.expr(e.args[0])
            if v.kind == ("GEN",):
                return Val(S, v.text, True)       # the value the generator yields at this call (an oracle variable)
            raise Reject("%s: next() of kind %s" % (_where(e), v.kind))
        if name == "isinstance" and len(e.args) == 2 and ast.unparse(e.args[1]) == "np.ndarray":
            v = self.expr(e.args[0])
            if v.kind[0] in ("V", "M"):
                return Val(B, "true")
            if v.kind == ("LISTV",):
                return Val(B, "false")
            raise Reject("%s: isinstance(%s, np.ndarray)" % (_where(e), v.kind))
        # ---- identity validators
        if name in self.u.get("identity_calls", []):
            if not e.args:
                raise Reject("%s: %s() without argument" % (_where(e), name))
            return self.expr(e.args[0])
        # ---- local values that are callable: activation functions, noise generator
        if name in self.env:
            fv = self.env[name]
            if fv.kind == FN and len(e.args) == 1 and not e.keywords:
                v = self.expr(e.args[0])
                if v.kind[0] != "V":
                    raise Reject("%s: activation applied to kind %s" % (_where(e), v.kind))
                return Val(v.kind, "%s %s" % (fv.text, v.p()), True)
            if fv.kind == ("NOISE",):
                kws = self.kw(e, {"dist", "shape", "gain"})
                if e.args or set(kws) != {"dist", "shape", "gain"}:
                    raise Reject("%s: the noise generator must be called as noise_gen(dist=, shape=, gain=)" % _where(e))
                if self.expr(kws["dist"]).kind != OPQ:
                    raise Reject("%s: dist= is not the node's noise_type" % _where(e))
                sh = kws["shape"]
                if not (isinstance(sh, ast.Attribute) and sh.attr == "shape"):
                    raise Reject("%s: shape= must be <array>.shape" % _where(e))
                arr = self.expr(sh.value)
                if arr.kind[0] != "V":
                    raise Reject("%s: noise of the shape of a value of kind %s" % (_where(e), arr.kind))
                g = self.expr(kws["gain"])
                if g.kind != S:
                    raise Reject("%s: gain of kind %s" % (_where(e), g.kind))
                draws = self.fs.get("draws", {})            # one independent generator draw per call site, named after its gain
                gk = ast.unparse(kws["gain"])
                if gk not in draws:
                    raise Reject("%s: noise with gain %r is not a declared draw of this function" % (_where(e), gk))
                if gk in self.used_draws:
                    raise Reject("%s: a second draw with gain %r" % (_where(e), gk))
                self.used_draws = self.used_draws | {gk}
                d = draws[gk]
                callee = self.u["noise_fn"]
                return Val(arr.kind, "%s %s (length %s) %s" % (callee, d, arr.p(), g.p()), True)
            if fv.kind == ("DRAWFN",):
                raise Reject("%s: the generator method must be called inside noise()" % _where(e))
        # ---- translated functions of the unit
        if name in self.summaries:
            return self.call_translated(name, e)
        raise Reject("%s: call of unknown function %r" % (_where(e), name))

    def np_call(self, mod, a, e):
        args = e.args
        if mod == "linalg":
            if a == "solve" and len(args) == 2:
                kws = self.kw(e, {"assume_a"})
                if "assume_a" in kws and ast.unparse(kws["assume_a"]) != "'sym'":
                    raise Reject("%s: linalg.solve(assume_a=%s)" % (_where(e), ast.unparse(kws["assume_a"])))
                A, Bm = self.expr(args[0]), self.expr(args[1])
                if A.kind == M and Bm.kind == M:
                    return Val(M, "solve %s %s" % (A.p(), Bm.p()), True)
            raise Reject("%s: linalg.%s" % (_where(e), a))
        if a in ("array", "asarray", "atleast_2d", "asanyarray") and len(args) == 1 and not e.keywords:
            v = self.expr(args[0])
            if v.kind == ("LISTV",) and a == "asarray":
                return Val(V("row"), "concat %s" % v.p(), True)       # reached for an empty list only: np.asarray([]) is empty
            if a == "atleast_2d" and v.kind == V("flat"):
                return Val(V("row"), v.text, v.fresh, v.alias)
            if v.kind[0] in ("V", "M", "S"):
                return Val(v.kind, v.text, v.fresh if a == "array" else False, None if a == "array" else v.alias)
            raise Reject("%s: np.%s of kind %s" % (_where(e), a, v.kind))
        if a == "dot" and len(args) == 2 and not e.keywords:
            return self.matmul(self.expr(args[0]), self.expr(args[1]), e)
        if a == "outer" and len(args) == 2 and not e.keywords:
            x, y = self.expr(args[0]), self.expr(args[1])
            if x.kind[0] == "V" and y.kind[0] == "V":
                return Val(M, "outer %s %s" % (x.p(), y.p()), True)
            raise Reject("%s: np.outer of kinds %s, %s" % (_where(e), x.kind, y.kind))
        if a == "multiply" and len(args) == 2 and not e.keywords:
            return self.arith(ast.Mult, self.expr(args[0]), self.expr(args[1]), e)
        if a == "sum" and len(args) == 1 and not e.keywords and isinstance(args[0], ast.Subscript) and isinstance(args[0].slice, ast.Slice) \
                and args[0].slice.step is None and args[0].slice.lower is not None and args[0].slice.upper is not None:
            v = self.expr(args[0].value)
            if v.kind[0] == "V":
                lo, hi = self.nat_expr(args[0].slice.lower), self.nat_expr(args[0].slice.upper)
                return Val(S, "vslice_sum %s %s %s" % (v.p(), lo.p(), hi.p()), True)
            raise Reject("%s: np.sum of a slice of kind %s" % (_where(e), v.kind))
        if a == "roll" and len(args) == 2 and ast.unparse(args[1]) == "1":
            kws = self.kw(e, {"axis"})
            v = self.expr(args[0])
            if v.kind == M and "axis" in kws and ast.unparse(kws["axis"]) == "0":
                return Val(M, "roll1 %s" % v.p(), True)
            raise Reject("%s: np.roll is accepted only as np.roll(<matrix>, 1, axis=0)" % _where(e))
        if a == "ravel" and len(args) == 1 and not e.keywords:
            v = self.expr(args[0])
            if v.kind == M:
                return Val(V("flat"), "concat %s" % v.p(), True)
            if v.kind[0] == "V":
                return Val(V("flat"), v.text, v.fresh, v.alias)
            raise Reject("%s: np.ravel of kind %s" % (_where(e), v.kind))
        if a == "prod" and len(args) == 1:
            kws = self.kw(e, {"axis"})
            v = self.expr(args[0])
            if v.kind[0] == "GATHER" and "axis" in kws and ast.unparse(kws["axis"]) == "1":
                return Val(V("col"), "gather_prod %s %s" % (v.kind[1], v.kind[2]), True)
            raise Reject("%s: np.prod is accepted only as np.prod(<vector>[<index table>], axis=1)" % _where(e))
        if a == "concatenate" and len(args) == 1:
            kws = self.kw(e, {"axis"})
            v = self.expr(args[0])
            if v.kind == ("LISTV",) and "axis" in kws and self.expr(kws["axis"]).kind == OPQ:
                return Val(V("row"), "concat %s" % v.p(), True)
            raise Reject("%s: np.concatenate of kind %s" % (_where(e), v.kind))
        if a == "eye" and len(args) == 1:
            self.kw(e, {"dtype"})
            n = self.expr(args[0])
            if n.kind == N:
                return Val(M, "eye %s" % n.p(), True)
            raise Reject("%s: np.eye of kind %s" % (_where(e), n.kind))
        if a == "zeros" and len(args) == 1:
            self.kw(e, {"dtype"})
            sh = args[0]
            if isinstance(sh, ast.Tuple) and len(sh.elts) == 2 and ast.unparse(sh.elts[0]) == "1":
                n = self.expr(sh.elts[1])
                if n.kind == N:
                    return Val(V("row"), "vzeros %s" % n.p(), True)
            if isinstance(sh, ast.Tuple) and len(sh.elts) == 2 and ast.unparse(sh.elts[1]) == "1":
                n = self.nat_expr(sh.elts[0], trunc_ok=True) if self.fs.get("indexing") else self.expr(sh.elts[0])
                if n.kind == N:
                    return Val(V("col"), "vzeros %s" % n.p(), True)
            if isinstance(sh, ast.Tuple) and len(sh.elts) == 2 and isinstance(sh.elts[1], ast.Constant) and isinstance(sh.elts[1].value, int) \
                    and sh.elts[1].value >= 2:
                n = self.expr(sh.elts[0])
                if n.kind == N:
                    return Val(M, "mzeros %s %d" % (n.p(), sh.elts[1].value), True)
            v = self.expr(sh)
            if v.kind == N:
                return Val(V("flat"), "vzeros %s" % v.p(), True)
            if v.kind == ("SHAPE",):
                return Val(V("flat"), "vzeros %s" % v.p(), True)
            raise Reject("%s: np.zeros(%s)" % (_where(e), ast.unparse(sh)))
        raise Reject("%s: numpy function np.%s is not accepted" % (_where(e), a))

    def call_translated(self, name, e):
        sm = self.summaries[name]
        fs = sm["spec"]
        params = [p for p in fs["params"]]
        given = {}
        pos = list(e.args)
        if len(pos) > len(params):
            raise Reject("%s: too many arguments for %s" % (_where(e), name))
        for p, a in zip(params, pos):
            given[p] = a
        for k in e.keywords:
            if k.arg not in params or k.arg in given:
                raise Reject("%s: bad keyword %r for %s" % (_where(e), k.arg, name))
            given[k.arg] = k.value
        args = []
        for p in params:
            pk = fs["params"][p]
            if pk == "OBJ":
                if p not in given or not self.obj_name(given[p]):
                    raise Reject("%s: %s must receive the node object as %r" % (_where(e), name, p))
                continue
            if pk == "IGNORE":
                continue
            if p not in given:
                raise Reject("%s: argument %r of %s is not given (defaults are not modelled)" % (_where(e), p, name))
            v = self.expr(given[p])
            if not kind_compat(pk, v.kind):
                raise Reject("%s: argument %r of %s has kind %s, declared %s" % (_where(e), p, name, v.kind, pk))
            args.append(v.p())
        # a callee must not read a field this function has already rebound (Section variables are the pre-state)
        stale = [r for r in sm["reads"] if r in self.fields]
        if stale:
            raise Reject("%s: %s reads field(s) %s after they were modified in the caller" % (_where(e), name, stale))
        self.reads |= set(sm["reads"])
        text = " ".join([sm["coqname"]] + args)
        ret = sm["ret"]
        if sm["writes"]:
            self.tmp += 1
            names = []
            for w in sm["writes"]:
                self.write_field(w, Val(self.u["fields"][w], ""), e)
                names.append("o_%s" % w)
            return Val(("EFFECT", ret, tuple(sm["writes"])), text, True)
        return Val(ret, text, True, items=None)

    # ------------------------------------------------------------------ statements
    def block(self, stmts, k):
        """Translate a statement list; k() gives the text of what follows (the function's tail); returns Coq text."""
        if not stmts:
            return k()
        s, rest = stmts[0], stmts[1:]
        txt = ast.unparse(s)
        if txt in self.fs.get("skip", []) or txt in self.u.get("skip", []):
            for name, kind in (self.fs.get("skip_rebinds", {}).get(txt, {})).items():
                self.env[name] = Val(kind, self.env[name].text, False, self.env[name].alias)
            return self.block(rest, k)
        if isinstance(s, ast.Expr) and isinstance(s.value, ast.Constant) and isinstance(s.value.value, str):
            return self.block(rest, k)
        if isinstance(s, ast.Return):
            if rest:
                raise Reject("%s: statements after return" % _where(s))
            return self.ret(s)
        if isinstance(s, ast.Assign):
            if len(s.targets) != 1:
                raise Reject("%s: chained assignment" % _where(s))
            tg = s.targets[0]
            if isinstance(tg, ast.Subscript):
                return self.subscript_assign(tg, self.expr(s.value), s, lambda: self.block(rest, k))
            val = self.expr(s.value)
            if val.kind[0] == "DQ_POP" and isinstance(tg, ast.Name):
                fld = val.kind[1]
                self.write_field(fld, Val(("DEQUE",), ""), s)
                self.rebound(fld)
                self.env[tg.id] = Val(V("row"), tg.id, True)
                return "let '(%s, o_%s) := %s in\n  %s" % (tg.id, fld, val.text, self.block(rest, k))
            return self.assign(tg, val, s, lambda: self.block(rest, k))
        if isinstance(s, ast.AugAssign):
            if not isinstance(s.target, ast.Name) or s.target.id not in self.env:
                raise Reject("%s: augmented assignment to %s" % (_where(s), ast.unparse(s.target)))
            cur = self.env[s.target.id]
            val = self.arith(type(s.op), Val(cur.kind, cur.text), self.expr(s.value), s)
            if cur.alias is not None:                      # in-place update of a buffer: the field changes
                self.write_field(cur.alias, val, s)
                nm = "o_" + cur.alias
                self.rebound(cur.alias)
                self.env[s.target.id] = Val(val.kind, nm, False, cur.alias)
                return "let %s := %s in\n  %s" % (nm, val.text, self.block(rest, k))
            if not cur.fresh and cur.kind not in (S, N):
                raise Reject("%s: in-place update of %r, which aliases another array" % (_where(s), s.target.id))
            return self.bind(s.target.id, Val(val.kind, val.text, True), lambda: self.block(rest, k))
        if isinstance(s, ast.Expr) and isinstance(s.value, ast.Call):
            c = s.value
            f = c.func
            if isinstance(f, ast.Attribute) and self.obj_name(f.value) and f.attr == "set_param":
                if len(c.args) != 2 or c.keywords or not isinstance(c.args[0], ast.Constant):
                    raise Reject("%s: set_param shape" % _where(s))
                name = c.args[0].value
                v = self.expr(c.args[1])
                self.write_field(name, v, s)
                self.rebound(name)
                return "let o_%s := %s in\n  %s" % (name, v.text, self.block(rest, k))
            v = self.expr(c)
            if v.kind[0] == "DQ_APPEND":
                fld = v.kind[1]
                self.write_field(fld, Val(("DEQUE",), ""), s)
                self.rebound(fld)
                return "let o_%s := %s in\n  %s" % (fld, v.text, self.block(rest, k))
            if v.kind[0] == "EFFECT":
                return self.assign(None, v, s, lambda: self.block(rest, k))
            raise Reject("%s: expression statement without effect: %s" % (_where(s), txt))
        if isinstance(s, ast.With):
            if len(s.items) == 1 and s.items[0].optional_vars is None and self.expr(s.items[0].context_expr).kind == ("OPT",):
                return self.block(list(s.body) + rest, k)        # `with lock:` is transparent (mutual exclusion is C09's Conc.v)
            raise Reject("%s: with statement" % _where(s))
        if isinstance(s, ast.If):
            return self.ifstmt(s, rest, k)
        if isinstance(s, ast.Raise):
            if rest:
                raise Reject("%s: statements after raise" % _where(s))
            if not self.fs.get("raises"):
                raise Reject("%s: raise in a function not declared as raising" % _where(s))
            return "None"
        if isinstance(s, ast.For):
            return self.forstmt(s, rest, k)
        raise Reject("%s: statement %s is not accepted" % (_where(s), type(s).__name__))

    def forstmt(self, s, rest, k):
        """for i in range(a, b): <element writes into arrays created before the loop>"""
        if s.orelse or not isinstance(s.target, ast.Name) or not (isinstance(s.iter, ast.Call) and isinstance(s.iter.func, ast.Name)
                                                                    and s.iter.func.id == "range" and len(s.iter.args) == 2 and not s.iter.keywords):
            raise Reject("%s: only `for i in range(a, b):` is accepted" % _where(s))
        a, b = self.nat_expr(s.iter.args[0], True), self.nat_expr(s.iter.args[1], True)
        written = []
        for st in s.body:
            if not (isinstance(st, ast.Assign) and len(st.targets) == 1 and isinstance(st.targets[0], ast.Subscript)):
                raise Reject("%s: a loop body may only contain element assignments" % _where(st))
            t = st.targets[0]
            while isinstance(t, ast.Subscript):
                t = t.value
            if not isinstance(t, ast.Name) or t.id not in self.env:
                raise Reject("%s: loop writes into %s" % (_where(st), ast.unparse(t)))
            if not self.env[t.id].fresh:
                raise Reject("%s: the loop fills %r, which aliases another array" % (_where(st), t.id))
            if t.id not in written:
                written.append(t.id)
        i = s.target.id
        if i in self.env or i in RESERVED:
            raise Reject("%s: loop variable %r shadows another name" % (_where(s), i))
        saved = (dict(self.env), dict(self.lb), set(self.loop_state))
        self.env[i] = Val(N, i)
        self.lb[i] = a.text
        self.loop_state |= set(written)
        tup = written[0] if len(written) == 1 else "(" + ", ".join(written) + ")"
        body = self.block(list(s.body), lambda: tup)
        self.env, self.lb, self.loop_state = saved
        for w in written:
            self.env[w] = Val(self.env[w].kind, w, True)
        pat = written[0] if len(written) == 1 else "'(" + ", ".join(written) + ")"
        return "let %s := for_range %s %s (fun %s %s =>\n  %s) %s in\n  %s" % (
            pat, a.p(), b.p(), ("'" + tup) if len(written) > 1 else tup, i, body, tup, self.block(rest, k))

    def subscript_assign(self, tg, val, node, k):
        """in-place writes into a FRESH local array: A[0] = row ; out[:n, :] = v ; out[n:, :] = v"""
        if self.fs.get("indexing") and isinstance(tg.value, ast.Subscript) and isinstance(tg.value.value, ast.Name) and tg.value.value.id in self.env \
                and self.env[tg.value.value.id].kind == M and val.kind == S:
            name = tg.value.value.id
            cur = self.env[name]
            if not cur.fresh:
                raise Reject("%s: in-place write into %r, which aliases another array" % (_where(node), name))
            new = "mupd %s %s %s %s" % (self.nat_expr(tg.value.slice).p(), self.nat_expr(tg.slice).p(), val.p(), cur.p())
            self.env[name] = Val(M, name, True)
            return "let %s := %s in\n  %s" % (name, new, k())
        if not isinstance(tg.value, ast.Name) or tg.value.id not in self.env:
            raise Reject("%s: subscript assignment to %s" % (_where(node), ast.unparse(tg.value)))
        name = tg.value.id
        cur = self.env[name]
        if not cur.fresh:
            raise Reject("%s: in-place write into %r, which aliases another array" % (_where(node), name))
        sl = tg.slice
        txt = ast.unparse(sl)
        if self.fs.get("indexing") and isinstance(tg.value, ast.Name) and cur.kind[0] == "V" and not isinstance(sl, (ast.Slice, ast.Tuple)) and val.kind == S:
            new = "vupd %s %s %s" % (self.nat_expr(sl).p(), val.p(), cur.p())
        elif self.fs.get("indexing") and cur.kind == M and not isinstance(sl, (ast.Slice, ast.Tuple)) and val.kind[0] == "V" and txt != "0":
            new = "mupd_row %s %s %s" % (self.nat_expr(sl).p(), val.p(), cur.p())
        elif cur.kind == M and txt == "0" and val.kind[0] == "V":
            new = "set_row0 %s %s" % (cur.p(), val.p())
        elif cur.kind[0] == "V" and isinstance(sl, ast.Tuple) and len(sl.elts) == 2 and ast.unparse(sl.elts[1]) == ":" \
                and isinstance(sl.elts[0], ast.Slice) and sl.elts[0].step is None and val.kind[0] == "V":
            lo, up = sl.elts[0].lower, sl.elts[0].upper
            if lo is None and up is not None:
                n = self.expr(up)
                if n.kind == ("SHAPE",):
                    pass
                if n.kind != N and not (isinstance(up, ast.Subscript) and ast.unparse(up) == "%s.shape[0]" % ast.unparse(node.value)):
                    raise Reject("%s: prefix write of a length other than the written vector's" % _where(node))
                if n.kind == N and n.text != "length %s" % val.p() and self.len_of.get(ast.unparse(up)) != val.text:
                    raise Reject("%s: out[:n] = v is accepted only when n is v.shape[0]" % _where(node))
                new = "vset_prefix %s %s" % (cur.p(), val.p())
            elif up is None and lo is not None:
                n = self.expr(lo)
                if n.kind != N:
                    raise Reject("%s: slice bound of kind %s" % (_where(node), n.kind))
                new = "vset_from %s %s %s" % (cur.p(), n.p(), val.p())
            else:
                raise Reject("%s: slice assignment [%s]" % (_where(node), txt))
        else:
            raise Reject("%s: subscript assignment %s[%s] = <%s>" % (_where(node), name, txt, val.kind[0]))
        self.env[name] = Val(cur.kind, name, True)
        return "let %s := %s in\n  %s" % (name, new, k())

    def bind(self, name, val, k):
        if name in RESERVED or name.startswith("o_") or not name.replace("_", "a").isalnum():
            raise Reject("local variable name %r is not accepted" % name)
        if val.text == name or (val.text.replace("_", "a").isalnum() and not val.fresh and val.kind not in (S,)):
            self.env[name] = Val(val.kind, val.text, val.fresh, val.alias, val.items)       # a plain alias: no let needed
            return k()
        if val.kind == N and val.text.startswith("length "):
            self.len_of[name] = val.text[len("length "):]
        self.env[name] = Val(val.kind, name, val.fresh, val.alias, val.items)
        return "let %s := %s in\n  %s" % (name, val.text, k())

    def assign(self, target, val, node, k):
        if val.kind[0] == "EFFECT":
            _, ret, writes = val.kind
            pats = []
            if target is not None:
                if ret == NONE:
                    raise Reject("%s: value of a function that returns nothing" % _where(node))
                if isinstance(target, ast.Tuple):
                    if ret[0] != "T" or len(ret) - 1 != len(target.elts):
                        raise Reject("%s: tuple unpacking of kind %s" % (_where(node), ret))
                    for t, kd in zip(target.elts, ret[1:]):
                        self.env[t.id] = Val(kd, t.id, True)
                    pats.append("(" + ", ".join(t.id for t in target.elts) + ")")
                else:
                    self.env[target.id] = Val(ret, target.id, True)
                    pats.append(target.id)
            elif ret != NONE:
                pats.append("_")
            for w in writes:
                self.rebound(w)
                pats.append("o_" + w)
            pat = pats[0] if len(pats) == 1 else "'(" + ", ".join(pats) + ")"
            return "let %s := %s in\n  %s" % (pat, val.text, k())
        if isinstance(target, ast.Name):
            return self.bind(target.id, val, k)
        if isinstance(target, ast.Tuple) and all(isinstance(t, ast.Name) for t in target.elts):
            if val.items is not None and len(val.items) == len(target.elts):     # a, b = e1, e2
                names = [t.id for t in target.elts]
                out = ""
                tmpn = []
                for t, it in zip(names, val.items):
                    tmpn.append((t, it))
                # simultaneous assignment: evaluate all right-hand sides first
                self.tmp += 1
                pre = ["let tmp%d_%d := %s in\n  " % (self.tmp, i, it.text) for i, (t, it) in enumerate(tmpn)]
                for i, (t, it) in enumerate(tmpn):
                    self.env[t] = Val(it.kind, "tmp%d_%d" % (self.tmp, i), it.fresh, it.alias)
                return "".join(pre) + k()
            if val.kind[0] == "T" and len(val.kind) - 1 == len(target.elts):
                for t, kd in zip(target.elts, val.kind[1:]):
                    self.env[t.id] = Val(kd, t.id, True)
                return "let '(%s) := %s in\n  %s" % (", ".join(t.id for t in target.elts), val.text, k())
        raise Reject("%s: assignment target %s" % (_where(node), ast.unparse(target)))

    def ret(self, s):
        if s.value is None:
            v = Val(NONE, "tt")
        else:
            v = self.expr(s.value)
        return self.result(v, s)

    def result(self, v, node):
        if getattr(self, "ret_kind", None) is None:
            self.ret_kind = v.kind
        elif not kind_compat(self.ret_kind, v.kind):
            raise Reject("%s: return values of different kinds (%s, %s)" % (_where(node), self.ret_kind, v.kind))
        parts = ([] if v.kind == NONE else [v.text]) + ["o_" + w for w in self.all_writes]
        for w in self.all_writes:
            if w not in self.fields:
                self.reads.add(w)
        if not parts:
            return "Some tt" if self.fs.get("raises") else "tt"
        r = parts[0] if len(parts) == 1 else "(" + ", ".join(parts) + ")"
        return ("Some (%s)" % r) if self.fs.get("raises") else r

    def ifstmt(self, s, rest, k):
        c = self.expr(s.test)
        if c.kind != B:
            raise Reject("%s: condition of kind %s" % (_where(s), c.kind))
        if c.text in ("true", "false"):                          # statically decided (isinstance on arrays, `is None` on given arguments)
            return self.block((list(s.body) if c.text == "true" else list(s.orelse)) + rest, k)

        def has_return(b):
            return any(isinstance(n, (ast.Return, ast.Raise)) for st in b for n in ast.walk(st))
        snap = (dict(self.env), dict(self.fields), self.noise_i)

        ud0 = self.used_draws

        def branch(b, tail):
            self.env, self.fields, self.noise_i, self.used_draws = dict(snap[0]), dict(snap[1]), snap[2], ud0
            return self.block(list(b), tail)
        if has_return(s.body) or has_return(s.orelse):
            # the rest of the block is the continuation of every branch that does not return
            def ends(b):
                return bool(b) and (isinstance(b[-1], (ast.Return, ast.Raise)) or (isinstance(b[-1], ast.If) and b[-1].orelse and ends(b[-1].body) and ends(b[-1].orelse)))
            tb = branch(list(s.body) + ([] if ends(s.body) else rest), k)
            eb = branch(list(s.orelse) + ([] if ends(s.orelse) else rest), k)
            return "if %s then\n  %s\n  else\n  %s" % (c.text, tb, eb)
        # no return inside: merge the locals / fields rebound in either branch
        results, ud = {}, {}

        def tail_for(tag):
            def tl():
                ud[tag] = self.used_draws
                results[tag] = (dict(self.env), dict(self.fields), self.noise_i)
                return "@@TAIL_%s@@" % tag
            return tl
        tb = branch(s.body, tail_for("t"))
        eb = branch(s.orelse, tail_for("e"))
        (envt, fldt, nt), (enve, flde, ne) = results["t"], results["e"]
        self.used_draws = self.used_draws | ud["t"] | ud["e"]
        merged_locals = []
        for nm in list(envt) + [x for x in enve if x not in envt]:
            ct = nm in envt and envt[nm] is not snap[0].get(nm)
            ce = nm in enve and enve[nm] is not snap[0].get(nm)
            if not (ct or ce):
                continue
            if nm in envt and nm in enve:
                if not kind_compat(envt[nm].kind, enve[nm].kind):
                    raise Reject("%s: %r has different kinds in the two branches" % (_where(s), nm))
                merged_locals.append(nm)
            # bound in one branch only and unknown before the if: local to that branch (a later use is an unknown name)
        merged_fields = [f for f in self.u["fields"] if fldt.get(f) != snap[1].get(f) or flde.get(f) != snap[1].get(f)]
        for f in merged_fields:
            if f not in snap[1]:
                self.reads.add(f)          # the branch that leaves it alone hands back the Section variable
        names = merged_locals + ["o_" + f for f in merged_fields]
        if not names:
            raise Reject("%s: an if statement without effect" % _where(s))

        def tup(env):
            parts = [env[nm].text for nm in merged_locals] + ["o_" + f for f in merged_fields]
            return parts[0] if len(parts) == 1 else "(" + ", ".join(parts) + ")"
        tb = tb.replace("@@TAIL_t@@", tup(envt))
        eb = eb.replace("@@TAIL_e@@", tup(enve))
        self.env, self.fields, self.noise_i = dict(snap[0]), dict(snap[1]), nt
        for nm in merged_locals:
            self.env[nm] = Val(envt[nm].kind, nm, envt[nm].fresh and enve[nm].fresh)
        for f in merged_fields:
            self.rebound(f)
        pat = names[0] if len(names) == 1 else "'(" + ", ".join(names) + ")"
        return "let %s := if %s then\n  %s\n  else\n  %s in\n  %s" % (pat, c.text, tb, eb, self.block(rest, k))

    # ------------------------------------------------------------------ the function
    def translate(self):
        fn, fs = self.fn, self.fs
        got = [a.arg for a in fn.args.args] + ([a.arg for a in fn.args.kwonlyargs] if fs.get("kwonly") else [])
        if got != list(fs["params"]) or (fn.args.vararg and not fs.get("allow_varargs")) or (fn.args.kwonlyargs and not fs.get("kwonly")) or (fn.args.kwarg and not fs.get("allow_kwargs")):
            raise Reject("%s: parameters of %s are %s, expected %s" % (_where(fn), fn.name, got, list(fs["params"])))
        if fn.decorator_list:
            raise Reject("%s: decorator on %s" % (_where(fn), fn.name))
        coqparams = []
        for p, kd in fs["params"].items():
            if kd in ("OBJ", "IGNORE"):
                continue
            if kd == ("NOISE",) or kd == ("DRAWFN",):
                self.env[p] = Val(kd, p)
                continue
            self.env[p] = Val(kd, p, False)
            coqparams.append("(%s : %s)" % (p, coqtype(kd)))
        coqparams = ["(%s : %s)" % (n_, t_) for n_, t_ in fs.get("extra_params", [])] + coqparams
        # first pass: the set of fields written on some path (needed at every return point)
        self.all_writes = []
        body = _strip_doc(fn.body)
        self.all_writes = self.collect_writes(body)
        text = self.block(list(body), lambda: self.result(Val(NONE, "tt"), fn))
        if self.writes != [w for w in self.all_writes if w in self.writes] or set(self.writes) != set(self.all_writes):
            raise Reject("%s: internal: write set of %s changed between passes (%s / %s)" % (_where(fn), fn.name, self.all_writes, self.writes))
        return coqparams, text

    def collect_writes(self, body):
        out = []
        aliases = {}
        for st in body:
            for n in ast.walk(st):
                if isinstance(n, ast.Assign) and len(n.targets) == 1 and isinstance(n.targets[0], ast.Name) and isinstance(n.value, ast.Call) \
                        and isinstance(n.value.func, ast.Attribute) and n.value.func.attr == "get_buffer" and n.value.args \
                        and isinstance(n.value.args[0], ast.Constant):
                    aliases[n.targets[0].id] = n.value.args[0].value
        for st in body:
            for n in ast.walk(st):
                if isinstance(n, ast.Call) and isinstance(n.func, ast.Attribute) and n.func.attr == "set_param" and n.args \
                        and isinstance(n.args[0], ast.Constant):
                    if n.args[0].value not in out:
                        out.append(n.args[0].value)
                if isinstance(n, ast.Call) and isinstance(n.func, ast.Attribute) and n.func.attr in ("appendleft", "pop") \
                        and isinstance(n.func.value, ast.Attribute) and self.u["fields"].get(n.func.value.attr) == ("DEQUE",):
                    if n.func.value.attr not in out:
                        out.append(n.func.value.attr)
                if isinstance(n, ast.AugAssign) and isinstance(n.target, ast.Name) and n.target.id in aliases:
                    if aliases[n.target.id] not in out:
                        out.append(aliases[n.target.id])
                if isinstance(n, ast.Call) and isinstance(n.func, ast.Name) and n.func.id in self.summaries:
                    for w in self.summaries[n.func.id]["writes"]:
                        if w not in out:
                            out.append(w)
        return out


def kind_compat(decl, got):
    if decl == got:
        return True
    if decl[0] == "V" and got[0] == "V":
        return decl[1] == got[1] or "any" in (decl[1], got[1])
    if decl[0] == "T" and got[0] == "T" and len(decl) == len(got):
        return all(kind_compat(a, b) for a, b in zip(decl[1:], got[1:]))
    return False


def coqtype(k):
    if k == S:
        return "F"
    if k == B or k == ("OPT",):
        return "bool"
    if k == N:
        return "nat"
    if k[0] == "V":
        return "list F"
    if k == M:
        return "list (list F)"
    if k == FN:
        return "list F -> list F"
    if k == ("GEN",):
        return "F"
    if k == ("IDX",):
        return "list (list nat)"
    if k in (("DEQUE",), ("LISTV",)):
        return "list (list F)"
    if k == ("SOLVE",):
        return "list (list F) -> list (list F) -> list (list F)"
    raise Reject("no Coq type for kind %s" % (k,))


def find_function(tree, name):
    for n in tree.body:
        if isinstance(n, ast.FunctionDef) and n.name == name:
            return n
    return None


def translate_unit(repo, unit, variant=None):
    """-> (section text, list of (coqname, python name))"""
    fields = dict(unit["fields"])
    if variant:
        fields.update(unit["variants"][variant])
    u = dict(unit, fields=fields)
    summaries = {}
    defs = []
    used_fields = []
    for fs in unit["functions"]:
        path = os.path.join(repo, fs["file"])
        tree = ast.parse(open(path).read())
        fn = find_function(tree, fs["name"])
        if fn is None:
            raise Reject("%s: function %s not found" % (fs["file"], fs["name"]))
        coqname = fs.get("coqname", fs["name"].lstrip("_"))
        if "pinned" in fs:
            got = dump_nodoc(fn)
            if got.strip() != fs["pinned"].strip():
                raise Reject("%s: %s no longer has the pinned source text the primitive %s stands for" % (fs["file"], fs["name"], coqname))
            summaries[fs["name"]] = {"spec": fs, "coqname": fs["prim"], "reads": [], "writes": [], "ret": fs["ret"]}
            continue
        tr = FnTr(u, fs, fn, summaries)
        try:
            params, text = tr.translate()
        except Reject as ex:
            raise Reject("%s, function %s: %s" % (fs["file"], fs["name"], ex))
        ret = getattr(tr, "ret_kind", NONE)
        if "ret" in fs and not kind_compat(fs["ret"], ret):
            raise Reject("%s: %s returns kind %s, declared %s" % (fs["file"], fs["name"], ret, fs["ret"]))
        summaries[fs["name"]] = {"spec": fs, "coqname": coqname, "reads": sorted(tr.reads), "writes": list(tr.writes), "ret": ret}
        for r in sorted(tr.reads):
            if r not in used_fields:
                used_fields.append(r)
        doc = "(* %s :: %s%s   returns %s%s *)" % (fs["file"], fs["name"], "", kind_doc(ret),
                                                 (", then the new values of fields " + ", ".join(tr.writes)) if tr.writes else "")
        defs.append("%s\nDefinition %s %s :=\n  %s." % (doc, coqname, " ".join(params), text))
    return u, defs, summaries


def kind_doc(k):
    if k == NONE:
        return "nothing"
    if k[0] == "T":
        return "(" + ", ".join(kind_doc(x) for x in k[1:]) + ")"
    if k[0] == "V":
        return "vector[%s]" % k[1]
    return {"S": "scalar", "M": "matrix", "B": "bool", "N": "nat"}.get(k[0], k[0])


def emit_unit(repo, unit):
    """-> Coq source text of coq/gen/<unit['out']>"""
    out = ["(* GENERATED by tools/vlib/py2coq_la.py from the current source of %s -- DO NOT EDIT." % ", ".join(sorted({f["file"] for f in unit["functions"]})),
           "   Regenerated by `./check` (pregen) and by setup (tools/regen.py).  Vectors are `list F` whatever their numpy orientation,",
           "   matrices `list (list F)` row-major; vocabulary: base/LA.v, base/GenPrelude.v.  Fields of the node object are the Section",
           "   variables o_<name>; a function that writes fields returns their new values after its own return value. *)",
           "From Coq Require Import List Bool Arith ZArith.",
           "From RV Require Import base.Num base.LA base.GenPrelude.",
           "Import ListNotations.", ""]
    variants = list(unit.get("variants", {None: {}}))
    for var in variants:
        u, defs, _ = translate_unit(repo, unit, var)
        modname = unit["module"] + (("_" + var) if var else "")
        out.append("Module %s." % modname)
        out.append("Section Gen.")
        out.append("Context {F : Type} `{Num F}.")
        decl = []
        for name, kd in u["fields"].items():
            if kd in (OPQ,):
                continue
            if kd == ("NOISE",):
                continue
            decl.append("(o_%s : %s)" % (name, coqtype(kd)))
            if kd == ("GEN",):
                pass
        for d in unit.get("oracles", []):
            decl.append("(%s : %s)" % (d[0], d[1]))
        if decl:
            out.append("Variables %s." % " ".join(decl))
        out.append("")
        out.extend(d + "\n" for d in defs)
        out.append("End Gen.")
        out.append("End %s." % modname)
        out.append("")
    return "\n".join(out)
