"""Parallel sweep of the registered quick checks over every kept seeded change, without touching /repo or /verif's build.

usage: tools/seed_sweep_par.py [-j N] [--all-checks] [name ...]      (default: every directory of /verif/seeded, 6 workers)

Each worker owns a private copy of /verif (rsync of the working tree including the compiled .vo files, under /tmp/vsw_<k>)
and a private detached worktree of /repo HEAD (/tmp/vsr_<k>).  For each seeded change: apply patch.diff in the worktree, run
demo.py against it (must fail) and against /repo (must pass), run `./check <prop> --tier quick` of the private /verif copy with
VERIF_REPO pointing at the worktree (for the property the change targets and for every check that caught it before), undo the
patch.  Results go to /verif/seeded/<name>/meta.json under "final_sweep".  Everything under /tmp is removed at the end.
(tools/seed_sweep.py does the same sequentially on /repo itself, the way the checks are finally used.)
"""
import json
import os
import re
import subprocess
import sys
import time
from concurrent.futures import ThreadPoolExecutor
import queue

VERIF = os.path.dirname(os.path.dirname(os.path.abspath(__file__)))


def sh(cmd, timeout=3600, cwd=None, env=None):
    try:
        p = subprocess.run(cmd, shell=True, capture_output=True, text=True, timeout=timeout, cwd=cwd, env=env)
        return p.returncode, p.stdout + p.stderr
    except subprocess.TimeoutExpired:
        return 124, "timeout"


def one(n, k, head):
    vw, rw = "/tmp/vsw_%d" % k, "/tmp/vsr_%d" % k
    d = os.path.join(VERIF, "seeded", n)
    patch = os.path.join(d, "patch.diff")
    meta = json.load(open(os.path.join(d, "meta.json")))
    prop = meta.get("confirmed_by_lead", {}).get("property") or n.split("_")[0]
    prev = meta.get("confirmed_by_lead", {}).get("caught_by", []) + (meta.get("final_sweep") or {}).get("caught_by", [])
    checks = [prop] + sorted(set(c for c in prev if c != prop))
    res = {"repo_head": head, "applied_to": "scratch worktree of /repo HEAD (VERIF_REPO)", "checks": {}}
    rc, out = sh("git -C %s apply %s" % (rw, patch))
    if rc != 0:
        res["applies"] = False
        res["apply_error"] = out[-300:]
    else:
        res["applies"] = True
        try:
            env = dict(os.environ, PYTHONHASHSEED="0", PYTHONWARNINGS="ignore")
            rcd, _ = sh("/venv/bin/python %s" % os.path.join(d, "demo.py"), cwd="/tmp", env=dict(env, PYTHONPATH=rw), timeout=900)
            res["demo_with_change"] = rcd
            rcd0, _ = sh("/venv/bin/python %s" % os.path.join(d, "demo.py"), cwd="/tmp", env=dict(env, PYTHONPATH="/repo"), timeout=900)
            res["demo_on_unchanged"] = rcd0
            for c in checks:
                t0 = time.time()
                rcc, outc = sh("./check %s --tier quick" % c, cwd=vw, timeout=1800, env=dict(os.environ, VERIF_REPO=rw))
                lines = [ln for ln in outc.splitlines() if ln.startswith("VIOLATION")]
                summ = [ln for ln in outc.splitlines() if re.match(r"^C\d\d tier=", ln)]
                res["checks"][c] = {"exit": rcc, "violations": len(lines), "no_failing_input": sum("no-failing-input-found" in ln for ln in lines),
                                    "summary": summ[-1] if summ else outc[-200:], "wall_s": round(time.time() - t0, 1)}
        finally:
            sh("git -C %s checkout -- . && git -C %s clean -fdq" % (rw, rw))
    res["caught_by"] = [c for c, r in res["checks"].items() if r["exit"] != 0 and r["violations"] > 0]
    meta["final_sweep"] = res
    json.dump(meta, open(os.path.join(d, "meta.json"), "w"), indent=1)
    print(n, res.get("applies"), "demo", res.get("demo_on_unchanged"), res.get("demo_with_change"), "caught by", res["caught_by"], flush=True)
    return (n, res.get("applies"), res.get("demo_on_unchanged"), res.get("demo_with_change"), res["caught_by"])


def main():
    args = sys.argv[1:]
    j = 6
    if args[:1] == ["-j"]:
        j = int(args[1]); args = args[2:]
    names = args or sorted(x for x in os.listdir(os.path.join(VERIF, "seeded")) if os.path.exists(os.path.join(VERIF, "seeded", x, "patch.diff")))
    head = sh("git -C /repo rev-parse --short HEAD")[1].strip()
    j = min(j, len(names))
    slots = queue.Queue()
    for k in range(j):
        sh("git -C /repo worktree remove --force /tmp/vsr_%d; rm -rf /tmp/vsw_%d /tmp/vsr_%d" % (k, k, k))
        rc, out = sh("git -C /repo worktree add --detach /tmp/vsr_%d HEAD" % k)
        assert rc == 0, out
        rc, out = sh("rsync -a --exclude .git --exclude build --exclude replays --exclude seeded %s/ /tmp/vsw_%d/" % (os.environ.get("VERIF_SRC", VERIF), k))
        assert rc == 0, out
        slots.put(k)

    def job(n):
        k = slots.get()
        try:
            return one(n, k, head)
        except Exception as e:                                      # keep the sweep going
            print(n, "ERROR", repr(e), flush=True)
            return (n, None, None, None, [])
        finally:
            slots.put(k)

    try:
        with ThreadPoolExecutor(j) as ex:
            summary = list(ex.map(job, names))
    finally:
        for k in range(j):
            sh("git -C /repo worktree remove --force /tmp/vsr_%d; rm -rf /tmp/vsw_%d /tmp/vsr_%d" % (k, k, k))
        sh("git -C /repo worktree prune")
    missed = [s for s in summary if s[1] and not s[4]]
    print("\n%d changes, %d applied, %d caught, missed: %s" % (len(summary), sum(1 for s in summary if s[1]), sum(1 for s in summary if s[4]), [m[0] for m in missed]))


if __name__ == "__main__":
    main()
