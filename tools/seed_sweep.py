"""Final sweep: run the registered checks against every kept seeded change, applied to /repo itself and undone straight afterwards.

usage: tools/seed_sweep.py [name ...]      (default: every directory of /verif/seeded)

For each /verif/seeded/<name>/patch.diff:  git -C /repo apply ; demo.py (must fail) ; ./check <prop> --tier quick for the property the
change targets and for the other checks that caught it before ; git -C /repo checkout -- . (and `git clean` of nothing: patches only modify
tracked files).  Results go to seeded/<name>/meta.json under "final_sweep".  Never run while something else is using /repo.
"""
import json
import os
import re
import subprocess
import sys
import time

VERIF = os.path.dirname(os.path.dirname(os.path.abspath(__file__)))


def sh(cmd, timeout=3600, cwd=None, env=None):
    p = subprocess.run(cmd, shell=True, capture_output=True, text=True, timeout=timeout, cwd=cwd, env=env)
    return p.returncode, p.stdout + p.stderr


def main():
    names = sys.argv[1:] or sorted(os.listdir(os.path.join(VERIF, "seeded")))
    rc, out = sh("git -C /repo status --porcelain --untracked-files=no")
    assert out.strip() == "", "/repo has local modifications:\n" + out
    head = sh("git -C /repo rev-parse --short HEAD")[1].strip()
    summary = []
    for n in names:
        d = os.path.join(VERIF, "seeded", n)
        patch = os.path.join(d, "patch.diff")
        if not os.path.exists(patch):
            continue
        meta = json.load(open(os.path.join(d, "meta.json")))
        prop = meta.get("confirmed_by_lead", {}).get("property") or n.split("_")[0]
        prev = meta.get("confirmed_by_lead", {}).get("caught_by", [])
        checks = [prop] + [c for c in prev if c != prop]
        res = {"repo_head": head, "applied_to": "/repo", "checks": {}}
        rc, out = sh("git -C /repo apply %s" % patch)
        if rc != 0:
            res["applies"] = False
            res["apply_error"] = out[-300:]
        else:
            res["applies"] = True
            try:
                env = dict(os.environ, PYTHONPATH="/repo", PYTHONHASHSEED="0", PYTHONWARNINGS="ignore")
                rcd, _ = sh("/venv/bin/python %s" % os.path.join(d, "demo.py"), cwd="/tmp", env=env, timeout=900)
                res["demo_with_change"] = rcd
                for c in checks:
                    t0 = time.time()
                    rcc, outc = sh("./check %s --tier quick" % c, cwd=VERIF, timeout=1800)
                    lines = [ln for ln in outc.splitlines() if ln.startswith("VIOLATION")]
                    summ = [ln for ln in outc.splitlines() if re.match(r"^C\d\d tier=", ln)]
                    res["checks"][c] = {"exit": rcc, "violations": len(lines), "no_failing_input": sum("no-failing-input-found" in ln for ln in lines),
                                        "summary": summ[-1] if summ else outc[-200:], "wall_s": round(time.time() - t0, 1)}
            finally:
                sh("git -C /repo checkout -- .")
            rcd0, _ = sh("/venv/bin/python %s" % os.path.join(d, "demo.py"), cwd="/tmp",
                         env=dict(os.environ, PYTHONPATH="/repo", PYTHONHASHSEED="0", PYTHONWARNINGS="ignore"), timeout=900)
            res["demo_on_unchanged"] = rcd0
        res["caught_by"] = [c for c, r in res["checks"].items() if r["exit"] != 0 and r["violations"] > 0]
        meta["final_sweep"] = res
        json.dump(meta, open(os.path.join(d, "meta.json"), "w"), indent=1)
        summary.append((n, res.get("applies"), res.get("demo_on_unchanged"), res.get("demo_with_change"), res["caught_by"]))
        print(n, res.get("applies"), "demo", res.get("demo_on_unchanged"), res.get("demo_with_change"), "caught by", res["caught_by"], flush=True)
    rc, out = sh("git -C /repo status --porcelain --untracked-files=no")
    assert out.strip() == "", "/repo not clean after the sweep:\n" + out
    missed = [s for s in summary if s[1] and not s[4]]
    print("\n%d changes, %d applied, %d caught, missed: %s" % (len(summary), sum(1 for s in summary if s[1]), sum(1 for s in summary if s[4]), [m[0] for m in missed]))


if __name__ == "__main__":
    main()
