From Coq Require Import ZArith List Lia Bool Arith.
Import ListNotations.
Open Scope Z_scope.

(* One shared accumulator X (the two memmaps XXT and YXT are updated inside the same critical section; a product of
   two copies of this system gives the pair).  Worker w adds its contribution c w by a non-atomic read / write. *)
Inductive pc := Start | Held | Read (t:Z) | Written | Done.

Record st := { X : Z; lock : option nat; pcs : nat -> pc }.

Definition upd (f:nat->pc) (w:nat) (p:pc) : nat -> pc := fun v => if Nat.eqb v w then p else f v.

Section Sys.
Variable use_lock : bool.
Variable c : nat -> Z.

Definition step (s:st) (w:nat) : st :=
  match pcs s w with
  | Start => if use_lock then
               match lock s with
               | None => {| X := X s; lock := Some w; pcs := upd (pcs s) w Held |}
               | Some _ => s                                        (* blocked: no-op *)
               end
             else {| X := X s; lock := lock s; pcs := upd (pcs s) w Held |}
  | Held => {| X := X s; lock := lock s; pcs := upd (pcs s) w (Read (X s)) |}
  | Read t => {| X := t + c w; lock := lock s; pcs := upd (pcs s) w Written |}
  | Written => {| X := X s; lock := (if use_lock then None else lock s); pcs := upd (pcs s) w Done |}
  | Done => s
  end.

Definition run (s:st) (sched:list nat) : st := fold_left step sched s.

(* contribution already visible in X *)
Definition counted (p:pc) : bool := match p with Written | Done => true | _ => false end.
Definition inside (p:pc) : bool := match p with Held | Read _ | Written => true | _ => false end.

Fixpoint total (n:nat) (f:nat->pc) : Z :=
  match n with O => 0 | S k => total k f + (if counted (f k) then c k else 0) end.

Lemma total_upd_ge n f w p : (n <= w)%nat -> total n (upd f w p) = total n f.
Proof. induction n; intros H; simpl; auto. rewrite IHn by lia. unfold upd.
  destruct (Nat.eqb_spec n w); [lia|reflexivity]. Qed.

Lemma total_upd n f w p : (w < n)%nat ->
  total n (upd f w p) = total n f - (if counted (f w) then c w else 0) + (if counted p then c w else 0).
Proof. induction n; intros H; [lia|]. simpl. destruct (Nat.eq_dec w n) as [->|Hne].
  - rewrite total_upd_ge by lia. unfold upd. rewrite Nat.eqb_refl. lia.
  - rewrite IHn by lia. unfold upd. destruct (Nat.eqb_spec n w); [lia|]. lia. Qed.
End Sys.

Section Locked.
Variable c : nat -> Z.
Variable n : nat.        (* number of workers: ids 0..n-1 *)
Variable X0 : Z.

Record Inv (s:st) : Prop := {
  iX : X s = X0 + total c n (pcs s);
  iL : forall w, (w < n)%nat -> (inside (pcs s w) = true <-> lock s = Some w);
  iR : forall w t, (w < n)%nat -> pcs s w = Read t -> t = X s;
  iLk : forall w, lock s = Some w -> (w < n)%nat }.

Definition init : st := {| X := X0; lock := None; pcs := fun _ => Start |}.

Lemma total_init : total c n (fun _ => Start) = 0.
Proof. induction n; simpl; lia. Qed.

Lemma Inv_init : Inv init.
Proof. split; simpl.
  - rewrite total_init. lia.
  - intros w _. split; discriminate.
  - intros w t _ H; discriminate.
  - intros w H; discriminate. Qed.

Lemma Inv_step s w : (w < n)%nat -> Inv s -> Inv (step true c s w).
Proof.
  intros Hw HI. pose proof HI as [iX iL iR iLk]. unfold step. destruct (pcs s w) eqn:Hp.
  - (* Start *) destruct (lock s) as [h|] eqn:Hl; [exact HI|].
    split; cbn [X lock pcs].
    + rewrite total_upd by auto. rewrite Hp. simpl. lia.
    + intros v Hv. unfold upd. destruct (Nat.eqb_spec v w) as [->|Hne]; simpl.
      * tauto.
      * rewrite iL by auto. split; [discriminate| intros H; inversion H; congruence].
    + intros v t Hv. unfold upd. destruct (Nat.eqb_spec v w); [discriminate| apply iR; auto].
    + intros v H; inversion H; subst; auto.
  - (* Held *) split; cbn [X lock pcs].
    + rewrite total_upd by auto. rewrite Hp. simpl. lia.
    + intros v Hv. unfold upd. destruct (Nat.eqb_spec v w) as [->|Hne]; simpl; [|apply iL; auto].
      rewrite <- iL by auto. rewrite Hp. simpl. tauto.
    + intros v t Hv. unfold upd. destruct (Nat.eqb_spec v w); [intros H; inversion H; auto| apply iR; auto].
    + auto.
  - (* Read t : the write *) 
    assert (Ht : t = X s) by (eapply iR; eauto). subst t.
    assert (Hlw : lock s = Some w) by (apply iL; auto; rewrite Hp; reflexivity).
    split; cbn [X lock pcs].
    + rewrite total_upd by auto. rewrite Hp. simpl. lia.
    + intros v Hv. unfold upd. destruct (Nat.eqb_spec v w) as [->|Hne]; simpl; [tauto| apply iL; auto].
    + (* nobody else is between read and write *)
      intros v t Hv. unfold upd. destruct (Nat.eqb_spec v w); [discriminate|]. intros Hr. exfalso.
      assert (lock s = Some v) by (apply iL; auto; rewrite Hr; reflexivity). congruence.
    + auto.
  - (* Written : release *)
    assert (Hlw : lock s = Some w) by (apply iL; auto; rewrite Hp; reflexivity).
    split; cbn [X lock pcs].
    + rewrite total_upd by auto. rewrite Hp. simpl. lia.
    + intros v Hv. unfold upd. destruct (Nat.eqb_spec v w) as [->|Hne]; simpl.
      * split; discriminate.
      * split; [|discriminate]. intros Hi. apply iL in Hi; auto. congruence.
    + intros v t Hv. unfold upd. destruct (Nat.eqb_spec v w); [discriminate| apply iR; auto].
    + intros v H; discriminate.
  - exact HI.
Qed.

Lemma Inv_run sched : forall s0, Inv s0 -> Forall (fun w => (w < n)%nat) sched -> Inv (run true c s0 sched).
Proof. unfold run. induction sched as [|w sched IH]; intros s0 H0 Hs; simpl; auto.
  inversion Hs; subst. apply IH; auto. apply Inv_step; auto. Qed.

Theorem locked_any_schedule sched :
  Forall (fun w => (w < n)%nat) sched ->
  let s := run true c init sched in
  (forall w, (w < n)%nat -> pcs s w = Done) ->
  X s = X0 + fold_right Z.add 0 (map c (seq 0 n)).
Proof.
  intros Hs s Hdone.
  assert (HI : Inv s) by (apply Inv_run; [apply Inv_init|exact Hs]).
  rewrite (iX _ HI). f_equal.
  assert (H : forall k, (k <= n)%nat -> total c k (pcs s) = fold_right Z.add 0 (map c (seq 0 k))).
  { induction k; intros Hk; [reflexivity|]. cbn [total]. rewrite IHk by lia. rewrite Hdone by lia. cbn [counted].
    rewrite seq_S, map_app, fold_right_app. cbn [map fold_right Nat.add].
    generalize (map c (seq 0 k)). intros l. induction l as [|a l IHl]; cbn [fold_right]; lia. }
  apply H; lia.
Qed.
End Locked.

(* without the lock a lost update exists (legacy compat trainer) *)
Example unlocked_refuted :
  let c := fun w => match w with O => 1 | _ => 10 end in
  let s := run false c (init 0) [0;1;0;1;0;1;0;1]%nat in
  (pcs s 0%nat = Done /\ pcs s 1%nat = Done) /\ X s <> 0 + (1 + 10).
Proof. vm_compute. split; [split; reflexivity| discriminate]. Qed.

Print Assumptions locked_any_schedule.
