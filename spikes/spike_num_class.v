From Coq Require Import Reals QArith List Lra Lia Bool.
Import ListNotations.
Class Num (F:Type) := {
  nzero : F; none_ : F; nadd : F -> F -> F; nmul : F -> F -> F; nsub : F -> F -> F; ndiv : F -> F -> F;
  nltb : F -> F -> bool }.
#[export] Instance NumR : Num R := {
  nzero := 0%R; none_ := 1%R; nadd := Rplus; nmul := Rmult; nsub := Rminus; ndiv := Rdiv;
  nltb := fun x y => if Rlt_dec x y then true else false }.
Section M.
Context {F} `{Num F}.
Definition vec := list F.
Fixpoint dot (a b : vec) : F := match a, b with x::a', y::b' => nadd (nmul x y) (dot a' b') | _, _ => nzero end.
Fixpoint vzip (f : F -> F -> F) (a b : vec) : vec := match a, b with x::a', y::b' => f x y :: vzip f a' b' | _,_ => [] end.
Definition relu (x:F) : F := if nltb x nzero then nzero else x.
Definition leak (lr : F) (r fx : vec) : vec := vzip (fun a b => nadd (nmul (nsub none_ lr) a) (nmul lr b)) r fx.
End M.
Open Scope R_scope.
Lemma nth_vzip (f : R -> R -> R) a b i : length a = length b -> (i < length a)%nat ->
  nth i (vzip f a b) 0 = f (nth i a 0) (nth i b 0).
Proof. revert b i; induction a as [|x a IH]; intros [|y b] i Hl Hi; simpl in *; try lia.
  destruct i; [reflexivity| apply IH; lia]. Qed.
Lemma leak_convex lr r fx i : 0 <= lr <= 1 -> length r = length fx -> (i < length r)%nat ->
  -1 <= nth i r 0 <= 1 -> -1 <= nth i fx 0 <= 1 -> -1 <= nth i (leak (F:=R) lr r fx) 0 <= 1.
Proof. intros Hlr Hl Hi Hr Hf. unfold leak. rewrite nth_vzip by assumption. cbn. nra. Qed.
Lemma relu_lip (a b : R) : Rabs (relu a - relu b) <= Rabs (a - b).
Proof. unfold relu; cbn. destruct (Rlt_dec a 0), (Rlt_dec b 0); 
  unfold Rabs; repeat destruct Rcase_abs; lra. Qed.
Print Assumptions relu_lip.
