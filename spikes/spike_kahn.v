From Coq Require Import List Arith Lia Bool Permutation.
Import ListNotations.

Definition node := nat.
Definition edge := (node * node)%type.
Definition edge_eqb (a b : edge) := Nat.eqb (fst a) (fst b) && Nat.eqb (snd a) (snd b).
Lemma edge_eqb_spec a b : reflect (a = b) (edge_eqb a b).
Proof. destruct a as [a1 a2], b as [b1 b2]; unfold edge_eqb; simpl.
  destruct (Nat.eqb_spec a1 b1), (Nat.eqb_spec a2 b2); simpl; constructor; congruence. Qed.

Definition remove_edge (e:edge) (E:list edge) := filter (fun x => negb (edge_eqb e x)) E.
Definition has_in (m:node) (E:list edge) := existsb (fun e => Nat.eqb (snd e) m) E.
Definition children (E0:list edge) (n:node) : list node := map snd (filter (fun e => Nat.eqb (fst e) n) E0).

(* one node's processing: remove its out-edges one by one, pushing children that become sources *)
Fixpoint relax (n:node) (ms:list node) (E:list edge) (st:list node) : list edge * list node :=
  match ms with
  | [] => (E, st)
  | m :: ms' => let E' := remove_edge (n,m) E in
                if has_in m E' then relax n ms' E' st else relax n ms' E' (m :: st)
  end.

Inductive res := Sorted (l:list node) | Cycle | OutOfFuel.

Fixpoint kahn (fuel:nat) (E0:list edge) (st:list node) (E:list edge) (acc:list node) : res :=
  match fuel with
  | 0 => OutOfFuel
  | S f => match st with
           | [] => match E with [] => Sorted (rev acc) | _ => Cycle end
           | n :: st' => let '(E', st'') := relax n (children E0 n) E st' in kahn f E0 st'' E' (n :: acc)
           end
  end.

Definition entries (V:list node) (E:list edge) := filter (fun v => negb (has_in v E)) V.
Definition topo (V:list node) (E:list edge) := kahn (S (length V)) E (rev (entries V E)) E [].

Eval vm_compute in topo [0;1;2;3] [(0,1);(0,2);(1,3);(2,3)].
Eval vm_compute in topo [0;1;2] [(0,1);(1,2);(2,1)].

(* soundness: every edge goes forward in the result *)
Definition before (l:list node) (u v:node) := exists l1 l2 l3, l = l1 ++ u :: l2 ++ v :: l3.

(* invariant on (st, E, acc) relative to E0:
   I1: E = edges of E0 whose source is not in acc
   I2: for every v in st ++ acc: has_in v E' = false for E' = E  ... *)
Definition I1 (E0 E:list edge) (acc:list node) := forall e, In e E <-> (In e E0 /\ ~ In (fst e) acc).

Lemma remove_edge_In e x E : In x (remove_edge e E) <-> In x E /\ x <> e.
Proof. unfold remove_edge. rewrite filter_In. destruct (edge_eqb_spec e x); simpl; intuition congruence. Qed.

Lemma has_in_false m E : has_in m E = false <-> forall e, In e E -> snd e <> m.
Proof. unfold has_in. split.
  - intros H e He Hs. assert (existsb (fun e => snd e =? m) E = true).
    { apply existsb_exists. exists e. split; auto. now apply Nat.eqb_eq. } congruence.
  - intros H. destruct (existsb (fun e => snd e =? m) E) eqn:Ex; auto. apply existsb_exists in Ex as [e [He Hs]].
    apply Nat.eqb_eq in Hs. exfalso. eapply H; eauto. Qed.

Lemma has_in_mono m E E' : (forall e, In e E' -> In e E) -> has_in m E = false -> has_in m E' = false.
Proof. rewrite !has_in_false. firstorder. Qed.

Lemma children_In E0 n m : In m (children E0 n) <-> In (n,m) E0.
Proof. unfold children. rewrite in_map_iff. split.
  - intros [[a b] [Hb Hf]]. simpl in Hb. subst. apply filter_In in Hf as [Hi Hn]. simpl in Hn.
    apply Nat.eqb_eq in Hn. subst. auto.
  - intros H. exists (n,m). split; auto. apply filter_In. simpl. rewrite Nat.eqb_refl. auto. Qed.

(* specification of the inner loop *)
Lemma relax_spec n ms : forall E st E1 st1, relax n ms E st = (E1, st1) ->
  (forall e, In e E1 <-> In e E /\ ~ (fst e = n /\ In (snd e) ms)) /\
  (exists new, st1 = new ++ st /\ (forall m, In m new -> In m ms /\ has_in m E1 = false)) /\
  (forall m, In m ms -> has_in m E1 = false -> In m st1 \/ has_in m E = false /\ False \/ In m st1).
Proof.
Abort.

Lemma relax_edges n ms : forall E st E1 st1, relax n ms E st = (E1, st1) ->
  forall e, In e E1 <-> In e E /\ ~ (fst e = n /\ In (snd e) ms).
Proof. induction ms as [|m ms IH]; intros E st E1 st1 H e; simpl in H.
  - inversion H; subst. simpl. intuition.
  - assert (HH: In e E1 <-> In e (remove_edge (n,m) E) /\ ~ (fst e = n /\ In (snd e) ms)).
    { destruct (has_in m (remove_edge (n,m) E)); eapply IH; eauto. }
    rewrite HH, remove_edge_In. destruct e as [a b]; simpl. split.
    + intros [[H1 H2] H3]. split; auto. intros [Ha [Hb|Hb]]; subst; [apply H2; reflexivity | apply H3; auto].
    + intros [H1 H2]. repeat split; auto.
      * intros Heq; inversion Heq; subst; apply H2; auto.
      * intros [Ha Hb]; apply H2; auto.
Qed.

Lemma relax_stack n ms : forall E st E1 st1, relax n ms E st = (E1, st1) ->
  exists new, st1 = new ++ st /\ (forall m, In m new -> In m ms /\ has_in m E1 = false).
Proof. induction ms as [|m ms IH]; intros E st E1 st1 H; simpl in H.
  - inversion H; subst. exists []. simpl. intuition.
  - destruct (has_in m (remove_edge (n,m) E)) eqn:Hh.
    + apply IH in H as [new [-> Hn]]. exists new. split; auto. intros x Hx. destruct (Hn x Hx). simpl; auto.
    + pose proof (relax_edges _ _ _ _ _ _ H) as HE. apply IH in H as [new [-> Hn]].
      exists (new ++ [m]). split; [now rewrite <- app_assoc|].
      intros x Hx. apply in_app_or in Hx as [Hx|[<-|[]]].
      * destruct (Hn x Hx). simpl; auto.
      * split; [simpl; auto|]. eapply has_in_mono; [|exact Hh]. intros e He. apply HE in He. tauto.
Qed.

(* a node whose last incoming edge is removed by relax ends up on the stack *)
Lemma relax_pushes n ms : forall E st E1 st1, relax n ms E st = (E1, st1) ->
  forall m, In m ms -> has_in m E1 = false -> In m st1.
Proof. induction ms as [|m0 ms IH]; intros E st E1 st1 H m Hm Hf; simpl in *; [tauto|].
  destruct (has_in m0 (remove_edge (n,m0) E)) eqn:Hh.
  - destruct Hm as [<-|Hm]; [|eapply IH; eauto].
    (* m0 still had an incoming edge after removing (n,m0); it must be removed later, i.e. m0 occurs again in ms *)
    destruct (in_dec Nat.eq_dec m0 ms) as [Hi|Hi]; [eapply IH; eauto|].
    exfalso. pose proof (relax_edges _ _ _ _ _ _ H) as HE.
    unfold has_in in Hh. apply existsb_exists in Hh as [e [He Hs]]. apply Nat.eqb_eq in Hs.
    rewrite has_in_false in Hf. apply (Hf e); auto. apply (proj2 (HE e)). split; [exact He|].
    intros [_ Hc]. apply Hi. rewrite <- Hs. exact Hc.
  - destruct Hm as [<-|Hm]; [|eapply IH; eauto].
    apply relax_stack in H as [new [-> _]]. apply in_or_app. right. simpl; auto.
Qed.
