From Coq Require Import Reals Lra Lia Arith.
Open Scope R_scope.
(* finite sums over nat indices *)
Fixpoint bsum (n:nat) (f:nat->R) : R := match n with O => 0 | S k => bsum k f + f k end.
Lemma bsum_ext n f g : (forall i, (i<n)%nat -> f i = g i) -> bsum n f = bsum n g.
Proof. induction n; intros H; simpl; [reflexivity|]. rewrite IHn, H; auto. Qed.
Lemma bsum_plus n f g : bsum n (fun i => f i + g i) = bsum n f + bsum n g.
Proof. induction n; simpl; [lra| rewrite IHn; lra]. Qed.
Lemma bsum_scal n c f : bsum n (fun i => c * f i) = c * bsum n f.
Proof. induction n; simpl; [lra| rewrite IHn; lra]. Qed.
Lemma bsum_scal_r n c f : bsum n (fun i => f i * c) = bsum n f * c.
Proof. induction n; simpl; [lra| rewrite IHn; lra]. Qed.
Lemma bsum_swap n m (f:nat->nat->R) : bsum n (fun i => bsum m (fun j => f i j)) = bsum m (fun j => bsum n (fun i => f i j)).
Proof. induction n; simpl. - induction m; simpl; lra. - rewrite IHn, <- bsum_plus. reflexivity. Qed.
Lemma bsum_sq_ge0 n f : 0 <= bsum n (fun i => f i * f i).
Proof. induction n; simpl; [lra| nra]. Qed.

Section SM.
Variable n : nat.
Definition M := nat -> nat -> R.
Definition V := nat -> R.
Definition mv (A:M) (v:V) : V := fun i => bsum n (fun k => A i k * v k).
Definition dot (u v:V) : R := bsum n (fun k => u k * v k).
Definition sym (A:M) := forall i j, A i j = A j i.
Definition isinv (P A:M) := forall i j, (i<n)%nat -> (j<n)%nat -> bsum n (fun k => P i k * A k j) = if Nat.eqb i j then 1 else 0.

(* one RLS step *)
Variables (P A : M) (r : V).
Hypothesis HP : sym P. Hypothesis HA : sym A.
Hypothesis Hinv : isinv P A.
Let k := mv P r.
Let rPr := dot r k.
Hypothesis Hpos : 1 + rPr <> 0.
Let c := / (1 + rPr).
Definition P' : M := fun i j => P i j - c * (k i * k j).
Definition A' : M := fun i j => A i j + r i * r j.

Lemma kA j : (j<n)%nat -> bsum n (fun l => k l * A l j) = r j.
Proof.
  intros Hj. unfold k, mv.
  transitivity (bsum n (fun l => bsum n (fun m => r m * (P m l * A l j)))).
  { apply bsum_ext; intros l Hl. rewrite <- bsum_scal_r. apply bsum_ext; intros m Hm. rewrite (HP l m). ring. }
  rewrite bsum_swap.
  transitivity (bsum n (fun m => r m * (if Nat.eqb m j then 1 else 0))).
  { apply bsum_ext; intros m Hm. rewrite bsum_scal. f_equal. apply Hinv; auto. }
  clear -Hj. revert Hj. generalize n as N. induction N; intros Hj; [lia|]. simpl.
  destruct (Nat.eqb_spec N j).
  - subst. rewrite (bsum_ext j _ (fun _ => 0)). 2:{ intros i Hi. destruct (Nat.eqb_spec i j); [lia|ring]. }
    assert (bsum j (fun _ => 0) = 0) by (clear; induction j; simpl; lra). lra.
  - rewrite IHN by lia. ring.
Qed.

Theorem sherman_morrison : isinv P' A'.
Proof.
  intros i j Hi Hj. unfold P', A'.
  transitivity (bsum n (fun l => P i l * A l j + r j * (P i l * r l) + (- c * k i) * (k l * A l j) + (- c * k i * r j) * (r l * k l))).
  { apply bsum_ext; intros; ring. }
  rewrite !bsum_plus, !bsum_scal.
  change (bsum n (fun l => P i l * r l)) with (k i).
  change (bsum n (fun l => r l * k l)) with rPr.
  rewrite kA by assumption. rewrite Hinv by assumption.
  unfold c. field_simplify_eq; [|exact Hpos]. ring.
Qed.
End SM.
Print Assumptions sherman_morrison.
