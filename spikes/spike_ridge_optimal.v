From Coq Require Import Reals Lra Lia Arith.
Open Scope R_scope.
Fixpoint bsum (n:nat) (f:nat->R) : R := match n with O => 0 | S k => bsum k f + f k end.
Lemma bsum_ext n f g : (forall i, (i<n)%nat -> f i = g i) -> bsum n f = bsum n g.
Proof. induction n; intros H; simpl; [reflexivity|]. rewrite IHn, H; auto. Qed.
Lemma bsum_plus n f g : bsum n (fun i => f i + g i) = bsum n f + bsum n g.
Proof. induction n; simpl; [lra| rewrite IHn; lra]. Qed.
Lemma bsum_scal n c f : bsum n (fun i => c * f i) = c * bsum n f.
Proof. induction n; simpl; [lra| rewrite IHn; lra]. Qed.
Lemma bsum_swap n m (f:nat->nat->R) : bsum n (fun i => bsum m (fun j => f i j)) = bsum m (fun j => bsum n (fun i => f i j)).
Proof. induction n; simpl. - induction m; simpl; lra. - rewrite IHn, <- bsum_plus. reflexivity. Qed.
Lemma bsum_sq_ge0 n f : 0 <= bsum n (fun i => f i * f i).
Proof. induction n; simpl; [lra| nra]. Qed.
Lemma bsum_sq_0 n f : bsum n (fun i => f i * f i) = 0 -> forall i, (i<n)%nat -> f i = 0.
Proof. induction n; intros H i Hi; [lia|]. simpl in H. pose proof (bsum_sq_ge0 n f).
  assert (f n * f n = 0 /\ bsum n (fun i => f i * f i) = 0) as [H1 H2] by nra.
  destruct (Nat.eq_dec i n) as [->|]; [nra| apply IHn; auto; lia]. Qed.

Section Ridge.
Variables (T n : nat) (x : nat -> nat -> R) (y : nat -> R) (lam : R).
Hypothesis Hlam : 0 < lam.
Definition pred (w:nat->R) (t:nat) := bsum n (fun i => x t i * w i).
Definition J (w:nat->R) := bsum T (fun t => (pred w t - y t) * (pred w t - y t)) + lam * bsum n (fun i => w i * w i).
(* regularised normal equations, one per coordinate: (X^T X + lam I) w = X^T y *)
Definition normal (w:nat->R) := forall i, (i<n)%nat -> bsum T (fun t => x t i * (pred w t - y t)) + lam * w i = 0.

Theorem ridge_gap w d : normal w ->
  J (fun i => w i + d i) - J w = bsum T (fun t => pred d t * pred d t) + lam * bsum n (fun i => d i * d i).
Proof.
  intros Hn. unfold J.
  assert (Hp : forall t, pred (fun i => w i + d i) t = pred w t + pred d t).
  { intros t. unfold pred. rewrite <- bsum_plus. apply bsum_ext; intros; ring. }
  (* cross term vanishes by the normal equations *)
  assert (Hc : bsum T (fun t => (pred w t - y t) * pred d t) = - lam * bsum n (fun i => w i * d i)).
  { unfold pred at 2.
    transitivity (bsum T (fun t => bsum n (fun i => d i * (x t i * (pred w t - y t))))).
    { apply bsum_ext; intros t _. rewrite <- bsum_scal. apply bsum_ext; intros; ring. }
    rewrite bsum_swap.
    transitivity (bsum n (fun i => d i * (- lam * w i))).
    { apply bsum_ext; intros i Hi. rewrite bsum_scal. f_equal. specialize (Hn i Hi). lra. }
    rewrite <- bsum_scal. apply bsum_ext; intros; ring. }
  transitivity (bsum T (fun t => (pred w t - y t) * (pred w t - y t) + 2 * ((pred w t - y t) * pred d t) + pred d t * pred d t)
                + lam * bsum n (fun i => w i * w i + 2 * (w i * d i) + d i * d i)
                - (bsum T (fun t => (pred w t - y t) * (pred w t - y t)) + lam * bsum n (fun i => w i * w i))).
  { f_equal. f_equal. - apply bsum_ext; intros t _. rewrite Hp. ring. - f_equal. apply bsum_ext; intros; ring. }
  rewrite !bsum_plus, !bsum_scal, Hc. ring.
Qed.

Corollary ridge_optimal w w' : normal w -> J w <= J w'.
Proof. intros Hn. pose proof (ridge_gap w (fun i => w' i - w i) Hn) as H.
  assert (E : J (fun i => w i + (w' i - w i)) = J w').
  { unfold J, pred. f_equal; [apply bsum_ext; intros t _|f_equal; apply bsum_ext; intros; ring];
    assert (bsum n (fun i => x t i * (w i + (w' i - w i))) = bsum n (fun i => x t i * w' i)) as -> by (apply bsum_ext; intros; ring); ring. }
  cbv beta in H. rewrite E in H. pose proof (bsum_sq_ge0 T (pred (fun i => w' i - w i))). pose proof (bsum_sq_ge0 n (fun i => w' i - w i)). nra.
Qed.

Corollary ridge_unique w w' : normal w -> J w' = J w -> forall i, (i<n)%nat -> w' i = w i.
Proof. intros Hn HJ i Hi. pose proof (ridge_gap w (fun i => w' i - w i) Hn) as H.
  assert (E : J (fun i => w i + (w' i - w i)) = J w').
  { unfold J, pred. f_equal; [apply bsum_ext; intros t _|f_equal; apply bsum_ext; intros; ring];
    assert (bsum n (fun i => x t i * (w i + (w' i - w i))) = bsum n (fun i => x t i * w' i)) as -> by (apply bsum_ext; intros; ring); ring. }
  cbv beta in H. rewrite E in H. pose proof (bsum_sq_ge0 T (pred (fun i => w' i - w i))). pose proof (bsum_sq_ge0 n (fun i => w' i - w i)).
  assert (Z : bsum n (fun i => (w' i - w i) * (w' i - w i)) = 0) by nra.
  pose proof (bsum_sq_0 n (fun i => w' i - w i) Z i Hi). simpl in *. lra.
Qed.
End Ridge.
Print Assumptions ridge_unique.
