#!/bin/bash
# Build the whole Coq development from files on disk only (offline), full .vo build.
set -e
cd "$(dirname "$0")"
export PYTHONPATH=/repo:/verif/tools PYTHONHASHSEED=0 PYTHONDONTWRITEBYTECODE=1
/venv/bin/python tools/regen.py
/venv/bin/python -c "
import sys; sys.path.insert(0,'tools')
from vlib import core; core.ensure_makefile()"
cd coq
timeout 3000 make -j16 2>&1 | tail -5
